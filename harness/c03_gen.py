"""Generators shared by C03 (optimize preserves what a model computes) and C04 (optimize is total /
valid / keeps the interface).

Typed random DAG models: every value carries (numpy dtype, concrete shape, exactness flag).  The
"exact" flag says that the value is integer valued / computed without rounding from the nice inputs,
so that discontinuous consumers (Floor, Cast to int, comparisons, ArgMax ...) behave identically in
every runtime and after constant folding (which evaluates with numpy).  Fuzzy values (after a
transcendental kernel) only flow into continuous operators and are compared with a tolerance.

    gen_dag(rng, idx, profile)      -> Case        random DAG (profile selects the feature mix)
    lifted_cases(rng, n, modes)     -> iterator    ONNX node-test models shipped with onnx, lifted
    Case.model / Case.feeds / Case.features / Case.exact (per output)
"""
from __future__ import annotations

import glob
import os

import numpy as np
import onnx
from onnx import TensorProto, helper, numpy_helper

F32, F64, I64, I32, BOOL, U8, F16 = (np.dtype(x) for x in ("float32", "float64", "int64", "int32", "bool", "uint8", "float16"))
STR = "str"
NP2ONNX = {F32: TensorProto.FLOAT, F64: TensorProto.DOUBLE, I64: TensorProto.INT64, I32: TensorProto.INT32,
           BOOL: TensorProto.BOOL, U8: TensorProto.UINT8, F16: TensorProto.FLOAT16, STR: TensorProto.STRING}
FLOATS = (F32, F64)
INTS = (I64, I32)


class Val:
    __slots__ = ("name", "dtype", "shape", "exact", "const", "seq", "depth")

    def __init__(self, name, dtype, shape, exact=True, const=False, seq=None, depth=0):
        self.name, self.dtype, self.shape, self.exact, self.const, self.seq, self.depth = name, dtype, tuple(shape), exact, const, seq, depth

    @property
    def rank(self):
        return len(self.shape)

    @property
    def size(self):
        return int(np.prod(self.shape)) if self.shape else 1


class Case:
    def __init__(self, model, feeds, features, exact, kind, ident, expected=None, overridable=()):
        self.model, self.feeds, self.features, self.exact, self.kind, self.ident = model, feeds, features, exact, kind, ident
        self.expected = expected            # recorded outputs (lifted node tests) or None
        self.overridable = list(overridable)  # names of initializer-inputs


def nice(rng, dtype, shape, special=False):
    """Small exactly representable values incl. 0, +-1, negative, 'large'."""
    n = int(np.prod(shape)) if len(shape) else 1
    if dtype == BOOL:
        return np.array([rng.random() < 0.5 for _ in range(n)], dtype=bool).reshape(shape)
    if dtype == STR:
        return np.array([rng.choice(["", "a", "b", "ab", "xyz"]) for _ in range(n)], dtype=object).reshape(shape)
    pool = [0, 1, -1, 2, -2, 3, 4, -3, 5, 7, -6, 0.5, -0.5, 1.5, 8, -8, 64, -100]
    if dtype in INTS or dtype == U8:
        pool = [int(p) for p in pool if float(p).is_integer()]
    if dtype == U8:
        pool = [abs(p) for p in pool]
    vals = [rng.choice(pool) for _ in range(n)]
    a = np.array(vals, dtype=dtype).reshape(shape)
    if special and dtype in FLOATS and n:
        flat = a.reshape(-1)
        flat[rng.randrange(n)] = rng.choice([np.inf, -np.inf, np.nan, -0.0])
    return a


class B:
    """Model builder for one graph scope (main graph, If/Loop body or function body)."""

    def __init__(self, rng, prefix="", parent=None, opset=18, is_function=False):
        self.rng, self.prefix, self.parent, self.opset, self.is_function = rng, prefix, parent, opset, is_function
        self.nodes, self.inits, self.inputs, self.vals = [], [], [], []
        self.feeds = {}
        self.k = 0
        self.features = parent.features if parent else set()
        self.functions = parent.functions if parent else []
        self.value_info = []
        self.sym_names = set()
        self.no_value_info = set()
        self.static_vi = set()        # values whose concrete shape does not depend on the graph inputs
        self.root = parent.root if parent else self

    # ---- names / values
    def fresh(self, hint="v"):
        r = self.root
        r.k += 1
        return f"{self.prefix}{hint}{r.k}"

    def visible(self):
        vs = list(self.vals)
        p = self.parent
        while p is not None:
            vs += p.vals
            p = p.parent
        return vs

    def add(self, v):
        self.vals.append(v)
        return v

    def node(self, op, ins, outs=1, domain="", **attrs):
        names = [self.fresh(op.lower()[:4]) for _ in range(outs)] if isinstance(outs, int) else outs
        self.nodes.append(helper.make_node(op, [("" if i is None else (i.name if isinstance(i, Val) else i)) for i in ins], names, domain=domain, **attrs))
        return names

    def const(self, arr, how=None):
        """A constant tensor: initializer (main graph or subgraph-owned) or Constant node (several attribute kinds)."""
        rng = self.rng
        arr = np.asarray(arr)
        dtype = STR if arr.dtype == object else arr.dtype
        how = how or rng.choice(["init", "node", "node", "attr"])
        name = self.fresh("c")
        if self.is_function and how == "init":
            how = "node"
        if how == "init":
            self.inits.append(numpy_helper.from_array(arr, name))
            if self.parent is not None:
                self.features.add("subgraph-initializer")
        elif how == "attr" and dtype == I64 and arr.ndim <= 1 and arr.size > 0:
            if arr.ndim == 0:
                self.nodes.append(helper.make_node("Constant", [], [name], value_int=int(arr)))
            else:
                self.nodes.append(helper.make_node("Constant", [], [name], value_ints=[int(x) for x in arr]))
            self.features.add("constant-attr-int")
        elif how == "attr" and dtype == F32 and arr.ndim <= 1 and arr.size > 0 and np.all(np.isfinite(arr)):
            if arr.ndim == 0:
                self.nodes.append(helper.make_node("Constant", [], [name], value_float=float(arr)))
            else:
                self.nodes.append(helper.make_node("Constant", [], [name], value_floats=[float(x) for x in arr]))
            self.features.add("constant-attr-float")
        else:
            self.nodes.append(helper.make_node("Constant", [], [name], value=numpy_helper.from_array(arr, name)))
        return self.add(Val(name, dtype, arr.shape, exact=True, const=True))

    def i64(self, xs, how=None):
        return self.const(np.array(xs, dtype=np.int64), how)

    def pick(self, pred=lambda v: True, prefer_const=None):
        c = [v for v in self.visible() if v.seq is None and pred(v)]
        if not c:
            return None
        if prefer_const is not None:
            c2 = [v for v in c if v.const == prefer_const]
            if c2 and self.rng.random() < 0.7:
                c = c2
        # bias towards recent values to get chains
        if self.rng.random() < 0.5:
            c = c[-6:]
        return self.rng.choice(c)

    def out(self, name, dtype, shape, exact, srcs=(), const=None):
        if const is None:
            const = bool(srcs) and all(s.const for s in srcs if s is not None)
        d = 1 + max([s.depth for s in srcs if s is not None] or [0])
        return self.add(Val(name, dtype, shape, exact, const, depth=d))


def bshape(a, b):
    return tuple(np.broadcast_shapes(a, b))


# ------------------------------------------------------------------------------------------- op emitters
# each returns a Val (or None when no operand of the needed type exists)

UNARY_EXACT = ["Abs", "Neg", "Relu", "Identity", "Sign", "Floor", "Ceil", "Round"]   # exact in, exact out
UNARY_FUZZY = ["Sigmoid", "Tanh", "Sin", "Cos", "Erf", "Softsign", "Atan"]       # bounded, continuous
UNARY_CONT = ["Abs", "Neg", "Relu", "Identity", "LeakyRelu", "Elu", "Selu", "HardSigmoid", "Softplus", "ThresholdedRelu0"]


def e_unary(b):
    rng = b.rng
    v = b.pick(lambda v: v.dtype in FLOATS)
    if v is None:
        return None
    if v.exact and rng.random() < 0.55:
        op = rng.choice(UNARY_EXACT)
        (n,) = b.node(op, [v])
        return b.out(n, v.dtype, v.shape, True, [v])
    op = rng.choice((UNARY_FUZZY if v.dtype == F32 else ["Sigmoid", "Tanh"]) + ["LeakyRelu", "Elu", "HardSigmoid", "Softplus", "Abs", "Neg", "Relu"])
    attrs = {}
    if op == "LeakyRelu":
        attrs = {"alpha": 0.25}
    (n,) = b.node(op, [v], **attrs)
    exact = v.exact and op in ("Abs", "Neg", "Relu", "LeakyRelu")
    return b.out(n, v.dtype, v.shape, exact, [v])


def e_unary_int(b):
    v = b.pick(lambda v: v.dtype in INTS)
    if v is None:
        return None
    op = b.rng.choice(["Abs", "Neg", "Identity", "Sign"])
    (n,) = b.node(op, [v])
    return b.out(n, v.dtype, v.shape, True, [v])


def _second_operand(b, v, want_const=None):
    """A value broadcast-compatible with v of the same dtype: an existing one, or a new constant."""
    rng = b.rng
    cands = [w for w in b.visible() if w.seq is None and w.dtype == v.dtype and w is not v and _bcast_ok(v.shape, w.shape)]
    if want_const is not None:
        cands = [w for w in cands if w.const == want_const]
    if cands and rng.random() < 0.6:
        return rng.choice(cands)
    # new constant: scalar, [1]*k, or a suffix of v's shape
    choice = rng.random()
    if choice < 0.35 or not v.shape:
        shp = ()
    elif choice < 0.5:
        shp = (1,) * rng.randint(1, max(1, v.rank))
    else:
        k = rng.randint(1, v.rank)
        shp = v.shape[-k:]
    return b.const(nice(rng, v.dtype, shp))


def _bcast_ok(a, b):
    try:
        np.broadcast_shapes(a, b)
        return True
    except ValueError:
        return False


def e_binary(b):
    rng = b.rng
    v = b.pick(lambda v: v.dtype in FLOATS + INTS)
    if v is None:
        return None
    w = _second_operand(b, v)
    ops = ["Add", "Sub", "Mul", "Min", "Max"]
    if v.dtype in FLOATS:
        ops += ["Div"] + (["PRelu1"] if v.dtype == F32 else [])
    op = rng.choice(ops)
    exact = v.exact and w.exact
    x, y = (v, w) if rng.random() < 0.5 else (w, v)
    if op == "Div":
        # keep the divisor away from 0 and the result moderate:  x / (|y| + 1)
        (a,) = b.node("Abs", [y])
        one = b.const(np.array(1, dtype=v.dtype), "node")
        (d,) = b.node("Add", [a, one])
        (n,) = b.node("Div", [x, d])
        return b.out(n, v.dtype, bshape(x.shape, y.shape), False, [x, y])
    if op == "PRelu1":
        slope = b.const(nice(rng, v.dtype, ()))
        (n,) = b.node("PRelu", [v, slope])
        return b.out(n, v.dtype, v.shape, v.exact, [v, slope])
    if op == "Mul" and exact and (x.depth > 6 or y.depth > 6):
        op = "Max"     # keep magnitudes bounded so that float32 stays exact
    (n,) = b.node(op, [x, y])
    return b.out(n, v.dtype, bshape(x.shape, y.shape), exact, [x, y])


def e_compare(b):
    rng = b.rng
    v = b.pick(lambda v: v.exact and v.dtype in FLOATS + INTS)
    if v is None:
        return None
    w = _second_operand(b, v)
    if not w.exact:
        return None
    op = rng.choice(["Equal", "Less", "Greater", "LessOrEqual", "GreaterOrEqual"])
    (n,) = b.node(op, [v, w])
    return b.out(n, BOOL, bshape(v.shape, w.shape), True, [v, w])


def e_logic(b):
    rng = b.rng
    v = b.pick(lambda v: v.dtype == BOOL)
    if v is None:
        return None
    if rng.random() < 0.3:
        (n,) = b.node("Not", [v])
        return b.out(n, BOOL, v.shape, True, [v])
    w = _second_operand(b, v)
    (n,) = b.node(rng.choice(["And", "Or", "Xor"]), [v, w])
    return b.out(n, BOOL, bshape(v.shape, w.shape), True, [v, w])


def e_where(b):
    c = b.pick(lambda v: v.dtype == BOOL)
    if c is None:
        return None
    x = b.pick(lambda v: v.dtype in FLOATS + INTS and _bcast_ok(v.shape, c.shape))
    if x is None:
        return None
    y = _second_operand(b, x)
    if not _bcast_ok(bshape(x.shape, y.shape), c.shape):
        return None
    (n,) = b.node("Where", [c, x, y])
    return b.out(n, x.dtype, bshape(bshape(x.shape, y.shape), c.shape), x.exact and y.exact, [c, x, y])


def e_cast(b):
    rng = b.rng
    v = b.pick(lambda v: v.exact and v.dtype in (F32, F64, I64, I32, BOOL))
    if v is None:
        return None
    targets = [F32, F64, I64, I32, v.dtype, v.dtype]
    if v.dtype in INTS or v.dtype == BOOL:
        targets.append(BOOL)
    t = rng.choice(targets)
    cur = v
    # keep values representable: ints from floats only for exact values (already), float16 avoided
    if rng.random() < 0.35:
        like = b.pick(lambda w: w.dtype == t) or b.const(nice(rng, t, ()))
        (n,) = b.node("CastLike", [cur, like])
        b.features.add("castlike")
        cur = b.out(n, t, v.shape, True, [cur], const=cur.const)
    else:
        (n,) = b.node("Cast", [cur], to=NP2ONNX[t])
        cur = b.out(n, t, v.shape, True, [cur])
    if cur.dtype == BOOL or v.dtype == BOOL:
        return cur
    if rng.random() < 0.5:
        # Cast chain (Cast-Cast rule territory)
        t2 = rng.choice([F32, F64, I64, I32])
        (n,) = b.node("Cast", [cur], to=NP2ONNX[t2])
        b.features.add("cast-chain")
        cur = b.out(n, t2, v.shape, True, [cur])
    return cur


def e_shape_chain(b):
    """Shape -> (Gather|Slice) -> Concat/Unsqueeze -> Reshape/Expand/ConstantOfShape."""
    rng = b.rng
    v = b.pick(lambda v: v.rank >= 1 and v.dtype != STR)
    if v is None:
        return None
    b.features.add("shape-chain")
    kw = {}
    lo, hi = 0, v.rank
    if rng.random() < 0.4:
        lo = rng.randint(0, v.rank - 1)
        hi = rng.randint(lo + 1, v.rank)
        kw = {"start": lo}
        if hi != v.rank or rng.random() < 0.5:
            kw["end"] = hi if rng.random() < 0.7 else hi - v.rank if hi != v.rank else hi
            if kw["end"] == 0 and hi == v.rank:
                kw.pop("end")
    (s,) = b.node("Shape", [v], **kw)
    dims = v.shape[lo:hi]
    sv = b.out(s, I64, (len(dims),), True, [], const=False)
    r = rng.random()
    if r < 0.2:
        (n,) = b.node("Size", [v])
        return b.out(n, I64, (), True, [], const=False)
    if r < 0.45 and dims:
        i = rng.randrange(len(dims))
        idx = b.i64([i] if rng.random() < 0.6 else i)
        (gth,) = b.node("Gather", [sv, idx], axis=0)
        gv = b.out(gth, I64, (1,) if idx.shape else (), True, [], const=False)
        if not idx.shape:
            ax = b.i64([0])
            (u,) = b.node("Unsqueeze", [gv, ax])
            gv = b.out(u, I64, (1,), True, [], const=False)
        rest = int(np.prod(v.shape)) // max(1, dims[i]) if dims[i] else 0
        if dims[i] == 0 or v.size == 0:
            return gv
        m1 = b.i64([-1])
        (cc,) = b.node("Concat", [gv, m1] if rng.random() < 0.5 else [m1, gv], axis=0)
        first = b.nodes[-1].input[0] == gv.name
        target = b.out(cc, I64, (2,), True, [], const=False)
        (n,) = b.node("Reshape", [v, target])
        return b.out(n, v.dtype, (dims[i], rest) if first else (rest, dims[i]), v.exact, [v], const=False)
    if r < 0.6 and len(dims) == v.rank:
        # Reshape / Expand to its own shape (identity candidates)
        op = rng.choice(["Reshape", "Expand"])
        (n,) = b.node(op, [v, sv])
        return b.out(n, v.dtype, v.shape, v.exact, [v], const=False)
    if r < 0.75:
        (a,) = b.node("Abs", [sv])
        av = b.out(a, I64, sv.shape, True, [], const=False)
        val = nice(rng, rng.choice([F32, I64]), (1,))
        (n,) = b.node("ConstantOfShape", [av], value=numpy_helper.from_array(val))
        return b.out(n, val.dtype, dims, True, [], const=False)
    if r < 0.9:
        other = b.i64([int(x) for x in nice(rng, I64, sv.shape)])
        (n,) = b.node(rng.choice(["Add", "Add", "Mul", "Sub"]), [sv, other] if rng.random() < 0.7 else [other, sv])
        res = b.out(n, I64, sv.shape, True, [], const=False)
        if rng.random() < 0.5:
            # Abs of a shape-valued tensor (the folder drops it when it believes every entry is non-negative)
            (a2,) = b.node("Abs", [res])
            res = b.out(a2, I64, sv.shape, True, [], const=False)
            b.features.add("abs-of-shape-arithmetic")
        return res
    (n,) = b.node("Cast", [sv], to=TensorProto.FLOAT)
    return b.out(n, F32, sv.shape, True, [], const=False)


def e_reshape_like(b):
    rng = b.rng
    v = b.pick(lambda v: v.dtype != STR)
    if v is None:
        return None
    op = rng.choice(["Reshape", "Flatten", "Unsqueeze", "Squeeze", "Transpose", "Reshape2", "SqueezeUnsqueeze", "Transpose2", "Identity"])
    if op == "Reshape":
        tgt = [v.size] if rng.random() < 0.5 else ([-1, 1] if v.size else [0, 1])
        if v.size == 0:
            tgt = [0]
        t = b.i64(tgt)
        (n,) = b.node("Reshape", [v, t])
        shp = (v.size,) if len(tgt) == 1 else (v.size, 1)
        return b.out(n, v.dtype, shp, v.exact, [v])
    if op == "Reshape2":
        b.features.add("reshape-chain")
        t1 = b.i64([-1])
        (m,) = b.node("Reshape", [v, t1])
        mv = b.out(m, v.dtype, (v.size,), v.exact, [v])
        t2 = b.i64(list(v.shape)) if v.rank else b.i64([1])
        (n,) = b.node("Reshape", [mv, t2])
        return b.out(n, v.dtype, v.shape if v.rank else (1,), v.exact, [v])
    if op == "Flatten":
        ax = rng.randint(0, v.rank)
        (n,) = b.node("Flatten", [v], axis=ax)
        a = int(np.prod(v.shape[:ax])) if ax else 1
        return b.out(n, v.dtype, (a, int(np.prod(v.shape[ax:])) if v.shape[ax:] else 1), v.exact, [v])
    if op == "Unsqueeze":
        ax = rng.randint(0, v.rank)
        t = b.i64([ax if rng.random() < 0.6 else ax - v.rank - 1])
        (n,) = b.node("Unsqueeze", [v, t])
        return b.out(n, v.dtype, v.shape[:ax] + (1,) + v.shape[ax:], v.exact, [v])
    if op == "Squeeze":
        ones = [i for i, d in enumerate(v.shape) if d == 1]
        if not ones:
            return None
        i = rng.choice(ones)
        t = b.i64([i])
        (n,) = b.node("Squeeze", [v, t])
        return b.out(n, v.dtype, v.shape[:i] + v.shape[i + 1:], v.exact, [v])
    if op == "SqueezeUnsqueeze":
        b.features.add("unsqueeze-squeeze")
        ax = rng.randint(0, v.rank)
        t = b.i64([ax])
        (m,) = b.node("Unsqueeze", [v, t])
        mv = b.out(m, v.dtype, v.shape[:ax] + (1,) + v.shape[ax:], v.exact, [v])
        (n,) = b.node("Squeeze", [mv, t])
        return b.out(n, v.dtype, v.shape, v.exact, [v])
    if op in ("Transpose", "Transpose2"):
        if v.rank < 2:
            return None
        perm = list(range(v.rank))
        rng.shuffle(perm)
        (n,) = b.node("Transpose", [v], perm=perm)
        r = b.out(n, v.dtype, tuple(v.shape[p] for p in perm), v.exact, [v])
        if op == "Transpose2":
            b.features.add("transpose-chain")
            perm2 = list(range(v.rank))
            rng.shuffle(perm2)
            (n2,) = b.node("Transpose", [r], perm=perm2)
            r = b.out(n2, v.dtype, tuple(r.shape[p] for p in perm2), v.exact, [v])
        return r
    (n,) = b.node("Identity", [v])
    b.features.add("identity")
    return b.out(n, v.dtype, v.shape, v.exact, [v])


def e_concat(b):
    rng = b.rng
    v = b.pick(lambda v: v.rank >= 1 and v.dtype in FLOATS + INTS)
    if v is None:
        return None
    ax = rng.randrange(v.rank)
    parts = [v]
    total = v.shape[ax]
    for _ in range(rng.randint(0, 2)):
        if rng.random() < 0.3:
            # zero-length operand (the folder removes those)
            shp = v.shape[:ax] + (0,) + v.shape[ax + 1:]
            parts.insert(rng.randint(0, len(parts)), b.const(np.zeros(shp, dtype=v.dtype)))
            b.features.add("concat-zero-size")
        else:
            k = rng.randint(1, 2)
            shp = v.shape[:ax] + (k,) + v.shape[ax + 1:]
            parts.insert(rng.randint(0, len(parts)), b.const(nice(rng, v.dtype, shp)))
            total += k
    if len(parts) == 1:
        b.features.add("concat-single")
    (n,) = b.node("Concat", parts, axis=ax if rng.random() < 0.7 else ax - v.rank)
    return b.out(n, v.dtype, v.shape[:ax] + (total,) + v.shape[ax + 1:], all(p.exact for p in parts), parts)


def e_slice_gather(b):
    rng = b.rng
    v = b.pick(lambda v: v.rank >= 1 and v.size > 0)
    if v is None:
        return None
    dyn = [w for w in b.root.vals if w.name in b.root.sym_names and w.rank >= 1 and w.size > 0]
    forced = False
    if dyn and b.parent is None and rng.random() < 0.5:
        v = rng.choice(dyn)          # a real slice along a dynamic axis of a graph input (or of a slice of it)
        forced = True
    ax = rng.randrange(v.rank)
    if forced:
        ax = max(range(v.rank), key=lambda i: v.shape[i])
    d = v.shape[ax]
    r = rng.random()
    if forced and d >= 2:
        # one or two chained real slices (all five inputs, step 1) along a dynamic axis; the values in between carry no
        # value_info, so their shapes are what node-level shape inference says (unnamed dynamic dimensions)
        cur = v
        length = d
        for _ in range(2 if d >= 3 and rng.random() < 0.7 else 1):
            if length < 2:
                break
            st = rng.randint(0, 1)
            en = length if st == 1 else length - 1
            (n,) = b.node("Slice", [cur, b.i64([st]), b.i64([en]), b.i64([ax]), b.i64([1])])
            length = en - st
            cur = b.out(n, v.dtype, v.shape[:ax] + (length,) + v.shape[ax + 1:], v.exact, [cur])
            b.root.no_value_info.add(n)
        b.features.add("slice-dynamic-axis")
        return cur
    if r < 0.45:
        if rng.random() < 0.3:
            st, en, sp = 0, rng.choice([d, 2 ** 31, 2 ** 62]), 1      # full-range slice (no-op rule)
            b.features.add("slice-noop")
        else:
            st = rng.randint(-d, d)
            en = rng.randint(-d, d + 1)
            sp = rng.choice([1, 1, 2, -1])
        idx = range(d)[slice(st, en, sp)]
        args = [v, b.i64([st]), b.i64([en]), b.i64([ax])]
        if sp != 1 or rng.random() < 0.6:
            args.append(b.i64([sp]))
        (n,) = b.node("Slice", args)
        return b.out(n, v.dtype, v.shape[:ax] + (len(idx),) + v.shape[ax + 1:], v.exact, [v])
    if r < 0.8:
        scalar = rng.random() < 0.4
        ind = rng.randint(-d, d - 1) if scalar else [rng.randint(-d, d - 1) for _ in range(rng.randint(1, 3))]
        i = b.i64(ind)
        (n,) = b.node("Gather", [v, i], axis=ax)
        return b.out(n, v.dtype, v.shape[:ax] + (() if scalar else (len(ind),)) + v.shape[ax + 1:], v.exact, [v])
    # Split into two, use both (multi-output node)
    if d < 2:
        return None
    k = rng.randint(1, d - 1)
    outs = b.node("Split", [v, b.i64([k, d - k])], 2, axis=ax)
    b.features.add("split")
    a = b.out(outs[0], v.dtype, v.shape[:ax] + (k,) + v.shape[ax + 1:], v.exact, [v])
    b.out(outs[1], v.dtype, v.shape[:ax] + (d - k,) + v.shape[ax + 1:], v.exact, [v])
    return a


def e_expand_tile(b):
    rng = b.rng
    v = b.pick(lambda v: v.dtype != STR)
    if v is None:
        return None
    if rng.random() < 0.6:
        lead = tuple(rng.randint(1, 2) for _ in range(rng.randint(0, 1)))
        tgt = lead + tuple(d if d != 1 or rng.random() < 0.5 else 3 for d in v.shape)
        if rng.random() < 0.3 and v.rank:
            tgt = v.shape    # same shape: Expand -> Identity
            b.features.add("expand-same")
        if rng.random() < 0.2 and v.rank:
            tgt = tuple(1 for _ in v.shape)   # all ones: broadcast keeps v.shape
        t = b.i64(list(tgt))
        (n,) = b.node("Expand", [v, t])
        return b.out(n, v.dtype, bshape(v.shape, tgt), v.exact, [v])
    if not v.rank:
        return None
    reps = [rng.choice([1, 1, 2]) for _ in v.shape]
    (n,) = b.node("Tile", [v, b.i64(reps)])
    return b.out(n, v.dtype, tuple(d * r for d, r in zip(v.shape, reps)), v.exact, [v])


def e_reduce(b):
    rng = b.rng
    v = b.pick(lambda v: v.rank >= 1 and v.dtype in (F32, F64, I64, I32) and v.size > 0)
    if v is None:
        return None
    op = rng.choice(["ReduceSum", "ReduceMax", "ReduceMin", "ReduceMean", "ReduceProd0"])
    if op == "ReduceProd0":
        op = "ReduceSum"
    ax = rng.randrange(v.rank)
    keep = rng.randint(0, 1)
    args = [v]
    noaxes = rng.random() < 0.15
    if not noaxes:
        args.append(b.i64([ax if rng.random() < 0.6 else ax - v.rank]))
    (n,) = b.node(op, args, keepdims=keep)
    if noaxes:
        shp = (1,) * v.rank if keep else ()
    else:
        shp = v.shape[:ax] + ((1,) if keep else ()) + v.shape[ax + 1:]
    exact = v.exact and (op != "ReduceMean" or v.dtype in INTS) and v.depth < 8
    if op == "ReduceMean" and v.dtype in INTS:
        return None
    if op == "ReduceMean":
        exact = False
    return b.out(n, v.dtype, shp, exact, [v])


def e_matmul(b):
    rng = b.rng
    v = b.pick(lambda v: v.rank == 2 and v.dtype == F32 and v.size > 0 and v.depth < 6)
    if v is None:
        return None
    k = v.shape[1]
    n_ = rng.randint(1, 3)
    w = b.const(nice(rng, F32, (k, n_)))
    r = rng.random()
    if r < 0.4:
        (n,) = b.node("MatMul", [v, w])
        out = b.out(n, F32, (v.shape[0], n_), v.exact, [v, w])
        if rng.random() < 0.6:
            bias = b.const(nice(rng, F32, (n_,)))
            (n2,) = b.node("Add", [out, bias])
            b.features.add("matmul-add")
            out = b.out(n2, F32, out.shape, out.exact, [out, bias])
        return out
    if r < 0.8:
        transb = rng.randint(0, 1)
        w2 = b.const(nice(rng, F32, (n_, k) if transb else (k, n_)))
        args = [v, w2]
        if rng.random() < 0.6:
            args.append(b.const(nice(rng, F32, rng.choice([(n_,), (1, n_), ()]))))
        (n,) = b.node("Gemm", args, transB=transb, alpha=rng.choice([1.0, 2.0, 0.5]), beta=rng.choice([1.0, 0.5]))
        b.features.add("gemm")
        return b.out(n, F32, (v.shape[0], n_), v.exact, [v])
    (n,) = b.node("Softmax", [v], axis=rng.choice([-1, 0, 1]))
    return b.out(n, F32, v.shape, False, [v])


def e_clip_motif(b):
    """Clip / Relu / Min / Max chains with constant bounds (fusion rules); bounds incl. negative and inverted."""
    rng = b.rng
    v = b.pick(lambda v: v.dtype in (F32, I64, F64))
    if v is None:
        return None
    cur = v
    pool = [None, -5, -1, 0, 1, 2, 3, 6]
    for _ in range(rng.randint(2, 3)):
        op = rng.choice(["Clip", "Clip", "Relu", "Min", "Max"])
        if op == "Relu" and v.dtype == I64:
            op = "Clip"
        if op == "Relu":
            (n,) = b.node("Relu", [cur])
        elif op == "Clip":
            lo, hi = rng.choice(pool), rng.choice(pool)
            how = rng.choice(["init", "node"])
            args = [cur]
            if lo is not None or hi is not None:
                args.append(b.const(np.array(lo, dtype=v.dtype), how) if lo is not None else None)
            if hi is not None:
                args.append(b.const(np.array(hi, dtype=v.dtype), how))
            (n,) = b.node("Clip", args)
        else:
            c = b.const(np.array(rng.choice(pool[1:]), dtype=v.dtype).reshape(rng.choice([(), (1,)])))
            (n,) = b.node(op, [cur, c] if rng.random() < 0.5 else [c, cur])
        shp = cur.shape if op in ("Relu", "Clip") else bshape(cur.shape, (1,) if b.nodes[-1].op_type in ("Min", "Max") and c.shape else cur.shape)
        cur = b.out(n, v.dtype, shp, v.exact, [cur], const=cur.const)
    b.features.add("clip-relu-minmax-chain")
    return cur


def e_noop_motif(b):
    """x+0, x*1, x/1, x-0, and near misses (x*1 with [1,1] shaped constant, x+0 with broadcasting constant)."""
    rng = b.rng
    v = b.pick(lambda v: v.dtype in (F32, I64))
    if v is None:
        return None
    op, c = rng.choice([("Add", 0), ("Mul", 1), ("Sub", 0), ("Div", 1), ("Add", 1), ("Mul", 0), ("Mul", -1)])
    shp = rng.choice([(), (1,), (1, 1), (1,) * (v.rank + 1), v.shape])
    k = b.const(np.full(shp, c, dtype=v.dtype))
    left = rng.random() < 0.4 and op in ("Add", "Mul")
    (n,) = b.node(op, [k, v] if left else [v, k])
    b.features.add("noop-arith")
    return b.out(n, v.dtype, bshape(v.shape, shp), v.exact, [v, k])


def e_dropout(b):
    rng = b.rng
    v = b.pick(lambda v: v.dtype in (F32, F64))
    if v is None:
        return None
    variant = rng.choice(["plain", "ratio", "ratio0-train", "tm-false", "mask"])
    args = [v]
    if variant != "plain" and variant != "mask":
        ratio = 0.0 if variant == "ratio0-train" else rng.choice([0.0, 0.5])
        args.append(b.const(np.array(ratio, dtype=np.float32)))
    if variant == "ratio0-train":
        args.append(b.const(np.array(True)))
    if variant == "tm-false":
        args.append(b.const(np.array(False)))
    nout = 2 if variant in ("mask", "tm-false") and rng.random() < 0.7 else 1
    outs = b.node("Dropout", args, nout)
    b.features.add("dropout-" + variant + ("-mask" if nout == 2 else ""))
    r = b.out(outs[0], v.dtype, v.shape, v.exact, [v], const=v.const)
    if nout == 2:
        b.out(outs[1], BOOL, v.shape, True, [v], const=False)
    return r


def e_sequence(b):
    rng = b.rng
    v = b.pick(lambda v: v.rank >= 1 and v.dtype in (F32, I64) and v.size > 0 and v.shape[0] >= 1)
    if v is None:
        return None
    r = rng.random()
    if r < 0.45:
        others = [w for w in b.visible() if w.seq is None and w.dtype == v.dtype and w.shape == v.shape and w is not v][:2]
        elems = [v] + others
        if rng.random() < 0.3:
            elems.append(v)            # the same value twice in one sequence
        (s,) = b.node("SequenceConstruct", elems)
        sv = b.add(Val(s, v.dtype, (), True, False, seq=[e.shape for e in elems]))
        b.features.add("sequence-construct")
        if rng.random() < 0.5:
            i = rng.randint(-len(elems), len(elems) - 1)
            (n,) = b.node("SequenceAt", [sv, b.i64(i)])
            return b.out(n, v.dtype, v.shape, elems[i].exact, [elems[i]], const=False)
        new_axis = rng.randint(0, 1)
        ax = rng.randrange(v.rank + new_axis)
        (n,) = b.node("ConcatFromSequence", [sv], axis=ax, new_axis=new_axis)
        b.features.add("concat-from-sequence")
        if new_axis:
            shp = v.shape[:ax] + (len(elems),) + v.shape[ax:]
        else:
            shp = v.shape[:ax] + (v.shape[ax] * len(elems),) + v.shape[ax + 1:]
        return b.out(n, v.dtype, shp, all(e.exact for e in elems), elems, const=False)
    # SplitToSequence (scalar split incl. uneven, 1-D split, keepdims) then SequenceAt / SequenceLength / ConcatFromSequence
    ax = rng.randrange(v.rank)
    d = v.shape[ax]
    mode = rng.choice(["scalar", "vector", "none", "dyn-scalar"])
    b.features.add("split-to-sequence-" + mode)
    kw = {"axis": ax}
    if mode == "dyn-scalar":
        # the chunk size is computed at run time (a scalar with declared shape []): Shape -> Gather;
        # prefer a graph input with symbolic dimensions, whose Shape the folder cannot evaluate
        symv = [w for w in b.root.vals if w.name in b.root.sym_names and w.rank >= 1 and w.dtype in (F32, I64) and w.size > 0]
        if symv and b.parent is None:
            v = rng.choice(symv)
            ax = rng.randrange(v.rank)
            d = v.shape[ax]
        (sh,) = b.node("Shape", [v])
        shv = b.out(sh, I64, (v.rank,), True, [], const=False)
        (gs,) = b.node("Gather", [shv, b.i64(ax)], axis=0)
        gv = b.out(gs, I64, (), True, [], const=False)
        b.value_info.append(_vi(gs, I64, (), sym=False))
        chunks = [d]
        args = [v, gv]
    elif mode == "scalar":
        k = rng.randint(1, max(1, d))
        chunks = [k] * (d // k) + ([d % k] if d % k else [])
        args = [v, b.i64(k)]
    elif mode == "vector":
        k = rng.randint(1, d)
        chunks = [k, d - k] if d - k else [k]
        args = [v, b.i64(chunks)]
        if rng.random() < 0.5:
            # the ONNX specification: keepdims is IGNORED when the split input is given
            kw["keepdims"] = rng.randint(0, 1)
            b.features.add("split-to-sequence-vector-keepdims%d" % kw["keepdims"])
    else:
        chunks = [1] * d
        args = [v]
        kw["keepdims"] = rng.randint(0, 1)
    (s,) = b.node("SplitToSequence", args, **kw)
    squeeze = mode == "none" and kw["keepdims"] == 0
    shapes = [v.shape[:ax] + (() if squeeze else (c,)) + v.shape[ax + 1:] for c in chunks]
    sv = b.add(Val(s, v.dtype, (), True, False, seq=shapes))
    q = rng.random()
    if q < 0.5:
        i = rng.randint(-len(chunks), len(chunks) - 1)
        (n,) = b.node("SequenceAt", [sv, b.i64(i)])
        return b.out(n, v.dtype, shapes[i], v.exact, [v], const=False)
    if q < 0.7:
        (n,) = b.node("SequenceLength", [sv])
        return b.out(n, I64, (), True, [], const=False)
    if squeeze:
        (n,) = b.node("ConcatFromSequence", [sv], axis=ax, new_axis=1)
        return b.out(n, v.dtype, v.shape[:ax] + (len(chunks),) + v.shape[ax + 1:], v.exact, [v], const=False)
    (n,) = b.node("ConcatFromSequence", [sv], axis=ax)
    return b.out(n, v.dtype, v.shape, v.exact, [v], const=False)


def e_const_expr(b):
    """A small all-constant expression (folding fodder), incl. ops on the folder's black-list and Transpose."""
    rng = b.rng
    dt = rng.choice([F32, I64, F32, F64])
    shp = rng.choice([(), (2,), (2, 3), (1, 3), (0,), (3, 0)])
    a = b.const(nice(rng, dt, shp, special=rng.random() < 0.15))
    r = rng.random()
    b.features.add("const-expr")
    if r < 0.25:
        c = b.const(nice(rng, dt, rng.choice([(), shp])))
        (n,) = b.node(rng.choice(["Add", "Mul", "Sub", "Max"]), [a, c])
        return b.out(n, dt, shp, True, [a, c])
    if r < 0.4 and len(shp) == 2:
        (n,) = b.node("Transpose", [a], perm=[1, 0])
        return b.out(n, dt, shp[::-1], True, [a])
    if r < 0.55:
        tgt = [2, 2] if rng.random() < 0.7 else [0, 2]
        s = b.i64(tgt)
        val = nice(rng, dt, (1,))
        (n,) = b.node("ConstantOfShape", [s], value=numpy_helper.from_array(val))
        b.features.add("blacklisted-constantofshape")
        return b.out(n, dt, tuple(tgt), True, [s])
    if r < 0.7:
        (n,) = b.node("Neg", [a])
        o = b.out(n, dt, shp, True, [a])
        (n2,) = b.node("Abs", [o])
        return b.out(n2, dt, shp, True, [o])
    if r < 0.8 and dt in FLOATS:
        (n,) = b.node(rng.choice(["IsNaN", "IsInf"]), [a])
        return b.out(n, BOOL, shp, True, [a])
    if r < 0.9:
        (n,) = b.node("Identity", [a])
        return b.out(n, dt, shp, True, [a])
    lim = b.i64(rng.randint(0, 4))
    (n,) = b.node("Range", [b.i64(0), lim, b.i64(1)])
    return b.out(n, I64, (int(_const_array(b, lim)),), True, [lim])


def _const_array(b, v):
    """numpy value of a constant created in scope b (initializer or Constant node)."""
    for t in b.inits:
        if t.name == v.name:
            return numpy_helper.to_array(t)
    for n in b.nodes:
        if n.op_type == "Constant" and n.output[0] == v.name:
            a = n.attribute[0]
            if a.name == "value":
                return numpy_helper.to_array(a.t)
            if a.name == "value_int":
                return np.array(a.i, dtype=np.int64)
            if a.name == "value_ints":
                return np.array(list(a.ints), dtype=np.int64)
            if a.name == "value_float":
                return np.array(a.f, dtype=np.float32)
            if a.name == "value_floats":
                return np.array(list(a.floats), dtype=np.float32)
    if b.parent is not None:
        return _const_array(b.parent, v)
    raise KeyError(v.name)


def e_string(b):
    rng = b.rng
    a = b.const(nice(rng, STR, rng.choice([(2,), (3,), ()])))
    b.features.add("string")
    if rng.random() < 0.5:
        (n,) = b.node("Identity", [a])
        return b.out(n, STR, a.shape, True, [a])
    if a.shape:
        (n,) = b.node("Gather", [a, b.i64([0, -1])], axis=0)
        return b.out(n, STR, (2,), True, [a])
    return a


def _sub_body(parent, tag, depth):
    sb = B(parent.rng, prefix=parent.prefix, parent=parent, opset=parent.opset)
    sb.depth_ = depth
    return sb


def e_if(b, depth=0):
    """If with constant or data-dependent condition; branches capture outer values, own initializers."""
    rng = b.rng
    if b.is_function:
        return None
    target = b.pick(lambda v: v.dtype in (F32, I64) and v.seq is None)
    if target is None:
        return None
    r = rng.random()
    if r < 0.45:
        cond = b.const(np.array(rng.random() < 0.5), rng.choice(["init", "node"]))
        b.features.add("if-const-cond")
    elif r < 0.6:
        # constant through a foldable expression
        c0 = b.const(np.array(rng.random() < 0.5))
        (n,) = b.node("Not", [c0])
        cond = b.out(n, BOOL, (), True, [c0])
        b.features.add("if-folded-cond")
    else:
        cv = b.pick(lambda v: v.dtype == BOOL and v.size >= 1 and not v.const)
        if cv is None:
            src = b.pick(lambda v: v.exact and v.dtype in (F32, I64) and v.size >= 1 and not v.const)
            if src is None:
                return None
            zero = b.const(np.array(0, dtype=src.dtype))
            (g,) = b.node("Greater", [src, zero])
            cv = b.out(g, BOOL, src.shape, True, [src])
        # reduce to a scalar: take element 0 of the flattened tensor
        (f,) = b.node("Reshape", [cv, b.i64([-1])])
        fv = b.out(f, BOOL, (cv.size,), True, [cv])
        (g,) = b.node("Gather", [fv, b.i64(0)], axis=0)
        cond = b.out(g, BOOL, (), True, [cv])
        b.features.add("if-dynamic-cond")
    branches = []
    exact = True
    for tag in ("then", "else"):
        sb = _sub_body(b, tag, depth + 1)
        # a couple of nodes using captured outer values and branch-owned constants
        cur = target
        for _ in range(rng.randint(1, 3)):
            q = rng.random()
            if q < 0.4:
                k = sb.const(nice(rng, target.dtype, rng.choice([(), target.shape])), rng.choice(["init", "node"]))
                (n,) = sb.node(rng.choice(["Add", "Mul", "Sub", "Max"]), [cur, k])
                cur = sb.out(n, target.dtype, target.shape, cur.exact, [cur, k], const=False)
            elif q < 0.6:
                (n,) = sb.node(rng.choice(["Neg", "Abs", "Identity", "Relu"]), [cur])
                cur = sb.out(n, target.dtype, target.shape, cur.exact, [cur], const=False)
            elif q < 0.75:
                k1 = sb.const(nice(rng, target.dtype, ()))
                k2 = sb.const(nice(rng, target.dtype, ()))
                (n,) = sb.node("Add", [k1, k2])                 # constant expression inside the branch
                kk = sb.out(n, target.dtype, (), True, [k1, k2])
                (n,) = sb.node("Add", [cur, kk])
                cur = sb.out(n, target.dtype, target.shape, cur.exact, [cur], const=False)
            elif q < 0.85 and depth < 1:
                inner = e_if(sb, depth + 1)
                if inner is not None and inner.dtype == target.dtype and inner.shape == target.shape:
                    cur = inner
                    b.features.add("nested-if")
            else:
                other = sb.pick(lambda w: w.dtype == target.dtype and w.shape == target.shape and w.seq is None)
                if other is not None:
                    (n,) = sb.node("Add", [cur, other])
                    cur = sb.out(n, target.dtype, target.shape, cur.exact and other.exact, [cur, other], const=False)
        if cur is target or cur.name not in [o for nd in sb.nodes for o in nd.output]:
            (n,) = sb.node("Identity", [cur])
            cur = sb.out(n, target.dtype, target.shape, cur.exact, [cur], const=False)
        exact = exact and cur.exact
        if rng.random() < 0.12:
            # the branch returns one of its own initializers directly
            k = sb.const(nice(rng, target.dtype, target.shape), "init")
            cur = k
            b.features.add("branch-returns-initializer")
        g = helper.make_graph(sb.nodes, f"{tag}_{b.fresh('g')}", [], [_vi(cur.name, cur.dtype, cur.shape, sym=False)], initializer=sb.inits)
        branches.append(g)
    (n,) = b.node("If", [cond], then_branch=branches[0], else_branch=branches[1])
    b.features.add("if")
    return b.out(n, target.dtype, target.shape, exact, [target], const=False)


def e_loop(b):
    """Loop with constant trip count, a carried value, capturing an outer value, owning an initializer."""
    rng = b.rng
    if b.is_function:
        return None
    init = b.pick(lambda v: v.dtype in (F32, I64) and v.seq is None and v.depth < 5)
    if init is None:
        return None
    trips = rng.randint(0, 3)
    m = b.const(np.array(trips, dtype=np.int64), rng.choice(["init", "node"]))
    cond = b.const(np.array(True), rng.choice(["init", "node"]))
    sb = _sub_body(b, "loop", 1)
    it, cin, carried = sb.fresh("iter"), sb.fresh("cin"), sb.fresh("acc")
    cur = sb.add(Val(carried, init.dtype, init.shape, init.exact, False))
    k = sb.const(nice(rng, init.dtype, rng.choice([(), init.shape])), rng.choice(["init", "node"]))
    (n,) = sb.node(rng.choice(["Add", "Max", "Sub"]), [cur, k])
    cur2 = sb.out(n, init.dtype, init.shape, init.exact, [cur], const=False)
    if rng.random() < 0.5:
        cap = sb.pick(lambda w: w.dtype == init.dtype and w.shape == init.shape and w.name != carried)
        if cap is not None:
            (n,) = sb.node("Min", [cur2, cap])
            cur2 = sb.out(n, init.dtype, init.shape, init.exact and cap.exact, [cur2], const=False)
            b.features.add("loop-captures-outer")
    if rng.random() < 0.4:
        k1, k2 = sb.const(nice(rng, init.dtype, ())), sb.const(nice(rng, init.dtype, ()))
        (n,) = sb.node("Mul", [k1, k2])
        kk = sb.out(n, init.dtype, (), True, [k1, k2])
        (n,) = sb.node("Max", [cur2, kk])
        cur2 = sb.out(n, init.dtype, init.shape, cur2.exact, [cur2], const=False)
    (co,) = sb.node("Identity", [cin])
    body = helper.make_graph(sb.nodes, b.fresh("body"),
                             [helper.make_tensor_value_info(it, TensorProto.INT64, []), helper.make_tensor_value_info(cin, TensorProto.BOOL, []),
                              _vi(carried, init.dtype, init.shape, sym=False)],
                             [helper.make_tensor_value_info(co, TensorProto.BOOL, []), _vi(cur2.name, init.dtype, init.shape, sym=False)],
                             initializer=sb.inits)
    (n,) = b.node("Loop", [m, cond, init], body=body)
    b.features.add("loop")
    return b.out(n, init.dtype, init.shape, init.exact and cur2.exact and (trips < 3 or init.dtype == I64), [init], const=False)


def e_function_call(b):
    """Call of a model-local function with an attribute reference inside (alpha of LeakyRelu / axis / Constant value)."""
    rng = b.rng
    if b.parent is not None or b.is_function:
        return None
    v = b.pick(lambda v: v.dtype == F32 and v.seq is None)
    if v is None:
        return None
    kind = rng.choice(["leaky", "constattr", "nested", "castlike"])
    fname = f"fn_{kind}_{len(b.functions)}"
    dom = "local.verif"
    pre = f"{fname}_"
    fx = pre + "fx"
    if kind == "leaky":
        a = helper.make_node("LeakyRelu", [fx], [pre + "t"])
        a.attribute.append(helper.make_attribute_ref("alpha", onnx.AttributeProto.FLOAT) if hasattr(helper, "make_attribute_ref") else _ref_attr("alpha", "alpha", onnx.AttributeProto.FLOAT))
        nodes = [a, helper.make_node("Constant", [], [pre + "two"], value=numpy_helper.from_array(np.array(2, dtype=np.float32))),
                 helper.make_node("Constant", [], [pre + "three"], value=numpy_helper.from_array(np.array(3, dtype=np.float32))),
                 helper.make_node("Mul", [pre + "two", pre + "three"], [pre + "six"]),
                 helper.make_node("Add", [pre + "t", pre + "six"], [pre + "y"])]
        attrs, call_attrs, exact = ["alpha"], {"alpha": 0.5}, v.exact
    elif kind == "constattr":
        c = helper.make_node("Constant", [], [pre + "k"])
        c.attribute.append(_ref_attr("value_float", "k", onnx.AttributeProto.FLOAT))
        nodes = [c, helper.make_node("Mul", [fx, pre + "k"], [pre + "t"]), helper.make_node("Identity", [pre + "t"], [pre + "y"])]
        attrs, call_attrs, exact = ["k"], {"k": float(rng.choice([2.0, 0.5, -1.0]))}, v.exact
    elif kind == "castlike":
        nodes = [helper.make_node("Constant", [], [pre + "one"], value_int=1),
                 helper.make_node("CastLike", [pre + "one", fx], [pre + "onef"]),
                 helper.make_node("Add", [fx, pre + "onef"], [pre + "y"])]
        attrs, call_attrs, exact = [], {}, v.exact
    else:
        inner = f"fn_inner_{len(b.functions)}"
        b.functions.append(helper.make_function(dom, inner, [inner + "_ix"], [inner + "_iy"],
                                                [helper.make_node("Neg", [inner + "_ix"], [inner + "_iy"])],
                                                [helper.make_opsetid("", b.opset)]))
        nodes = [helper.make_node(inner, [fx], [pre + "t"], domain=dom), helper.make_node("Relu", [pre + "t"], [pre + "y"])]
        attrs, call_attrs, exact = [], {}, v.exact
    b.functions.append(helper.make_function(dom, fname, [fx], [pre + "y"], nodes, [helper.make_opsetid("", b.opset), helper.make_opsetid(dom, 1)], attributes=attrs))
    (n,) = b.node(fname, [v], domain=dom, **call_attrs)
    b.features.add("function-" + kind)
    return b.out(n, F32, v.shape, exact, [v])


def _ref_attr(name, ref, typ):
    a = onnx.AttributeProto()
    a.name, a.ref_attr_name, a.type = name, ref, typ
    return a


# ------------------------------------------------------------------------------------------- targeted families (round 3)

def _produced_names(b):
    return {o for n in b.nodes for o in n.output}


def _dyn_scalar(b, dt):
    """A run-time scalar of dtype dt (shape () whatever the shapes of the graph inputs are), or None."""
    rng = b.rng
    v = b.pick(lambda w: not w.const and w.dtype == dt and w.size > 0 and w.exact and w.depth < 6)
    if v is None:
        return None
    if v.rank == 0:
        return v
    (n,) = b.node("ReduceMax", [v], keepdims=0)
    return b.out(n, dt, (), True, [v], const=False)


def _static(b, v):
    """v's shape does not depend on the graph inputs: annotate it with its concrete shape."""
    b.root.static_vi.add(v.name)
    return v


def e_zero_dims(b):
    """Zero-length dimensions in every operand position of the modelled evaluators (Concat along / across the empty axis,
    Reshape / Expand to the own shape, Shape / Size / Gather, sequences, Cast, Dropout ...): the run-time SHAPE of an empty
    tensor is what the folder must preserve."""
    rng = b.rng
    dt = rng.choice([F32, F32, I64])
    rank = rng.randint(1, 3)
    zax = rng.randrange(rank)
    base = [rng.randint(1, 3) for _ in range(rank)]
    base[zax] = 0
    scal = _dyn_scalar(b, dt) if rng.random() < 0.7 else None

    def operand(shape):
        c = b.const(np.zeros(shape, dtype=dt) if 0 in shape else nice(rng, dt, shape))
        if scal is not None and rng.random() < 0.6:
            (n,) = b.node(rng.choice(["Mul", "Add"]), [c, scal] if rng.random() < 0.5 else [scal, c])
            return _static(b, b.out(n, dt, tuple(shape), True, [c, scal], const=False))
        return c

    b.features.add("zero-dim-operands")
    kind = rng.choice(["concat", "concat", "concat", "reshape-own", "expand-own", "shape", "size", "seq-concat", "seq-at",
                       "split-seq", "cast", "dropout", "squeeze", "add-bcast"])
    b.features.add("zero-dim:" + kind)
    x = operand(base)
    if kind == "concat":
        ax = rng.randrange(rank)
        parts, total = [], 0
        for _ in range(rng.randint(2, 3)):
            shp = list(base)
            shp[ax] = rng.choice([0, 1, 2, 3]) if ax != zax else rng.choice([0, 0, 1, 2])
            parts.append(operand(shp))
            total += shp[ax]
        if ax != zax:
            b.features.add("concat-zero-in-other-axis")
        (n,) = b.node("Concat", parts, axis=ax if rng.random() < 0.5 else ax - rank)
        res = list(base)
        res[ax] = total
        r = b.out(n, dt, tuple(res), True, parts)
        if any(not p.const for p in parts):
            r.const = False
            _static(b, r)
        if rng.random() < 0.6:
            (s,) = b.node("Shape", [r])
            return b.out(s, I64, (rank,), True, [], const=False)
        return r
    if kind in ("reshape-own", "expand-own"):
        how = rng.choice(["shape-of", "const"])
        if how == "shape-of":
            (s,) = b.node("Shape", [x])
            sv = b.out(s, I64, (rank,), True, [], const=False)
        else:
            sv = b.i64(list(base))
        (n,) = b.node("Reshape" if kind == "reshape-own" else "Expand", [x, sv])
        r = b.out(n, dt, tuple(base), True, [x], const=x.const and sv.const)
        return r if r.const else _static(b, r)
    if kind == "shape":
        kw = {}
        if rng.random() < 0.6:
            kw["start"] = rng.randint(-rank, rank)
        if rng.random() < 0.4:
            kw["end"] = rng.randint(-rank, rank)
        (n,) = b.node("Shape", [x], **kw)
        dims = base[slice(kw.get("start", 0), kw.get("end", None))]
        sv = b.out(n, I64, (len(dims),), True, [], const=False)
        if dims and rng.random() < 0.5:
            (g,) = b.node("Gather", [sv, b.i64([rng.randrange(len(dims))])], axis=0)
            return b.out(g, I64, (1,), True, [], const=False)
        return sv
    if kind == "size":
        (n,) = b.node("Size", [x])
        return b.out(n, I64, (), True, [], const=False)
    if kind in ("seq-concat", "seq-at"):
        elems = [x, operand(base)] + ([x] if rng.random() < 0.3 else [])
        (s,) = b.node("SequenceConstruct", elems)
        sv = b.add(Val(s, dt, (), True, False, seq=[tuple(base)] * len(elems)))
        if kind == "seq-at":
            (n,) = b.node("SequenceAt", [sv, b.i64(rng.randint(-len(elems), len(elems) - 1))])
            return b.out(n, dt, tuple(base), True, elems, const=False)
        new_axis = rng.randint(0, 1)
        ax = rng.randrange(rank + new_axis)
        (n,) = b.node("ConcatFromSequence", [sv], axis=ax, new_axis=new_axis)
        shp = base[:ax] + [len(elems)] + base[ax:] if new_axis else base[:ax] + [base[ax] * len(elems)] + base[ax + 1:]
        r = b.out(n, dt, tuple(shp), True, elems, const=False)
        (s2,) = b.node("Shape", [r])
        return b.out(s2, I64, (len(shp),), True, [], const=False)
    if kind == "split-seq":
        others = [i for i in range(rank) if i != zax and base[i] >= 1]
        ax = rng.choice(others) if others and rng.random() < 0.7 else zax
        d = base[ax]
        if d == 0:
            chunks = [0, 0]
        else:
            k = rng.randint(1, d)
            chunks = [k, d - k] if d - k else [k]
        (s,) = b.node("SplitToSequence", [x, b.i64(chunks)], axis=ax)
        shapes = [tuple(base[:ax] + [c] + base[ax + 1:]) for c in chunks]
        sv = b.add(Val(s, dt, (), True, False, seq=shapes))
        i = rng.randint(-len(chunks), len(chunks) - 1)
        (n,) = b.node("SequenceAt", [sv, b.i64(i)])
        r = b.out(n, dt, shapes[i], True, [x], const=False)
        (s2,) = b.node("Shape", [r])
        return b.out(s2, I64, (rank,), True, [], const=False)
    if kind == "cast":
        t = rng.choice([dt, F64, I32])
        if rng.random() < 0.5:
            like = b.const(nice(rng, t, ()))
            (n,) = b.node("CastLike", [x, like])
        else:
            (n,) = b.node("Cast", [x], to=NP2ONNX[t])
        r = b.out(n, t, tuple(base), True, [x], const=x.const)
        return r if r.const else _static(b, r)
    if kind == "dropout":
        if dt != F32:
            return x
        outs = b.node("Dropout", [x], 2)
        r = b.out(outs[0], dt, tuple(base), True, [x], const=False)
        b.out(outs[1], BOOL, tuple(base), True, [x], const=False)
        return r
    if kind == "squeeze":
        ax = rng.randint(0, rank)
        (u,) = b.node("Unsqueeze", [x, b.i64([ax])])
        uv = b.out(u, dt, tuple(base[:ax] + [1] + base[ax:]), True, [x], const=x.const)
        (n,) = b.node("Squeeze", [uv, b.i64([ax])])
        r = b.out(n, dt, tuple(base), True, [x], const=x.const)
        return r if r.const else _static(b, r)
    other = list(base)
    free = [i for i in range(rank) if i != zax]
    if free and rng.random() < 0.6:
        other[rng.choice(free)] = 1
    y = operand(other if rng.random() < 0.7 else other[1:] if rank > 1 and zax != 0 else other)
    try:
        shp = bshape(tuple(base), y.shape)
    except ValueError:
        return x
    (n,) = b.node(rng.choice(["Add", "Mul", "Max"]), [x, y])
    r = b.out(n, dt, shp, True, [x, y])
    return r if r.const else _static(b, r)


def _dyn_cond(b):
    """A boolean scalar computed at run time (never a compile-time constant), or None."""
    cv = b.pick(lambda v: v.dtype == BOOL and v.size >= 1 and not v.const)
    if cv is None:
        src = b.pick(lambda v: v.exact and v.dtype in (F32, I64) and v.size >= 1 and not v.const)
        if src is None:
            return None
        zero = b.const(np.array(0, dtype=src.dtype))
        (g,) = b.node("Greater", [src, zero])
        cv = b.out(g, BOOL, src.shape, True, [src])
    if cv.rank == 0:
        return cv
    (f,) = b.node("Reshape", [cv, b.i64([-1])])
    fv = b.out(f, BOOL, (cv.size,), True, [cv])
    (g,) = b.node("Gather", [fv, b.i64(0)], axis=0)
    return b.out(g, BOOL, (), True, [cv])


def _alias_of(sb, v, how=None):
    """A node whose output the folder knows to be the value v itself (Identity, same-type Cast, single-operand Concat,
    Dropout in inference mode, Reshape to a constant own shape)."""
    rng = sb.rng
    opts = ["Identity", "Identity", "Cast"]
    if v.rank >= 1:
        opts += ["Concat1", "Reshape"]
    if v.dtype == F32:
        opts.append("Dropout")
    how = how or rng.choice(opts)
    if how == "Cast":
        (n,) = sb.node("Cast", [v], to=NP2ONNX[v.dtype])
    elif how == "Concat1":
        (n,) = sb.node("Concat", [v], axis=0)
    elif how == "Reshape":
        (n,) = sb.node("Reshape", [v, sb.i64(list(v.shape), "node")])
    elif how == "Dropout":
        (n,) = sb.node("Dropout", [v])
    else:
        (n,) = sb.node("Identity", [v])
    sb.features.add("alias-by-" + how.lower())
    return sb.out(n, v.dtype, v.shape, v.exact, [v], const=False)


def e_if_forward(b):
    """If on a run-time condition whose branches hand outer node outputs through (Identity and the other alias-producing
    evaluators), or return one inner value twice (two outputs aliasing one value)."""
    rng = b.rng
    if b.is_function:
        return None
    produced = _produced_names(b)
    p = b
    while p.parent is not None:
        p = p.parent
        produced |= _produced_names(p)
    t = b.pick(lambda v: not v.const and v.name in produced and v.dtype in (F32, I64) and v.seq is None)
    if t is None:
        return None
    cond = _dyn_cond(b)
    if cond is None:
        return None
    variant = rng.choice(["forward-both", "forward-one", "forward-one", "two-outputs-alias", "forward-and-alias"])
    nout = 1 if variant in ("forward-both", "forward-one") else 2
    branches = []
    exact = t.exact
    for tag in ("then", "else"):
        sb = _sub_body(b, tag, 1)
        outs = []
        if variant == "forward-both" or (variant == "forward-one" and (tag == "then") == (rng.random() < 0.5)) or variant == "forward-and-alias":
            outs.append(_alias_of(sb, t))                       # the branch output IS an outer node output
        else:
            (n,) = sb.node(rng.choice(["Neg", "Abs"]), [t])
            outs.append(sb.out(n, t.dtype, t.shape, t.exact, [t], const=False))
        if nout == 2:
            if variant == "two-outputs-alias":
                (m_,) = sb.node("Neg", [t])
                mid = sb.out(m_, t.dtype, t.shape, t.exact, [t], const=False)
                outs = [_alias_of(sb, mid), _alias_of(sb, mid)]    # both outputs alias one inner value
            else:
                (m_,) = sb.node("Abs", [t])
                mid = sb.out(m_, t.dtype, t.shape, t.exact, [t], const=False)
                outs.append(_alias_of(sb, mid))
        g = helper.make_graph(sb.nodes, f"{tag}_{b.fresh('g')}", [], [_vi(o.name, o.dtype, o.shape, sym=False) for o in outs], initializer=sb.inits)
        branches.append(g)
    names = b.node("If", [cond], nout, then_branch=branches[0], else_branch=branches[1])
    b.features.add("if")
    b.features.add("if-dynamic-cond")
    b.features.add("subgraph-forwards-outer:" + variant)
    res = [b.out(n, t.dtype, t.shape, exact, [t], const=False) for n in names]
    return res[0]


def e_loop_scan(b):
    """Loop with scan outputs: two scan outputs aliasing one inner value, a scan output that hands an outer node output
    through an Identity."""
    rng = b.rng
    if b.is_function or b.parent is not None:
        return None
    init = b.pick(lambda v: v.dtype in (F32, I64) and v.seq is None and v.depth < 5 and v.size > 0)
    if init is None:
        return None
    produced = _produced_names(b)
    t = b.pick(lambda v: not v.const and v.name in produced and v.dtype in (F32, I64) and v.seq is None and v.size > 0)
    trips = rng.choice([1, 2, 3, 0])
    m = b.const(np.array(trips, dtype=np.int64), rng.choice(["init", "node"]))
    cond = b.const(np.array(True), rng.choice(["init", "node"]))
    sb = _sub_body(b, "loop", 1)
    it, cin, carried = sb.fresh("iter"), sb.fresh("cin"), sb.fresh("acc")
    acc = sb.add(Val(carried, init.dtype, init.shape, init.exact, False))
    k = sb.const(nice(rng, init.dtype, ()), rng.choice(["init", "node"]))
    (n,) = sb.node(rng.choice(["Add", "Max", "Sub"]), [acc, k])
    acc_out = sb.out(n, init.dtype, init.shape, init.exact, [acc], const=False)
    (m_,) = sb.node("Neg", [acc])
    mid = sb.out(m_, init.dtype, init.shape, init.exact, [acc], const=False)
    scans = []
    variant = rng.choice(["alias-pair", "forward-outer", "both"]) if t is not None else "alias-pair"
    if variant in ("alias-pair", "both"):
        scans += [_alias_of(sb, mid), _alias_of(sb, mid)]
    if variant in ("forward-outer", "both"):
        scans.append(_alias_of(sb, t))
    (co,) = sb.node("Identity", [cin])
    body = helper.make_graph(sb.nodes, b.fresh("body"),
                             [helper.make_tensor_value_info(it, TensorProto.INT64, []), helper.make_tensor_value_info(cin, TensorProto.BOOL, []),
                              _vi(carried, init.dtype, init.shape, sym=False)],
                             [helper.make_tensor_value_info(co, TensorProto.BOOL, []), _vi(acc_out.name, init.dtype, init.shape, sym=False)]
                             + [_vi(s.name, s.dtype, s.shape, sym=False) for s in scans],
                             initializer=sb.inits)
    names = b.node("Loop", [m, cond, init], 1 + len(scans), body=body)
    b.features.add("loop")
    b.features.add("loop-scan-outputs:" + variant)
    ex = init.exact and (trips < 3 or init.dtype == I64)
    r = b.out(names[0], init.dtype, init.shape, ex, [init], const=False)
    for nm, s in zip(names[1:], scans):
        b.root.no_value_info.add(nm)
        b.out(nm, s.dtype, (trips,) + tuple(s.shape), ex and s.exact, [init], const=False)
    return r


def e_optional_omitted(b):
    """All-constant nodes on the generic folding path that omit an optional input (empty name in the middle or at the end of
    the input list); the results are larger than the small output size limits of the option tuples."""
    rng = b.rng
    dt = rng.choice([F32, I64, F32])
    shp = rng.choice([(2, 3), (8,), (3, 3), (5,), (2, 2, 2)])
    c = b.const(nice(rng, dt, shp), rng.choice(["init", "node"]))
    kind = rng.choice(["clip-max-only", "clip-trailing-empty", "pad-no-value", "slice-no-axes", "clip-max-only"])
    b.features.add("optional-input-omitted:" + kind)
    if kind == "clip-max-only":
        hi = b.const(np.array(rng.choice([0, 1, 3]), dtype=dt), rng.choice(["init", "node"]))
        (n,) = b.node("Clip", [c, None, hi])
        return b.out(n, dt, shp, True, [c, hi])
    if kind == "clip-trailing-empty":
        lo = b.const(np.array(rng.choice([-1, 0, 2]), dtype=dt), rng.choice(["init", "node"]))
        (n,) = b.node("Clip", [c, lo, None])
        return b.out(n, dt, shp, True, [c, lo])
    if kind == "pad-no-value":
        ax = rng.randrange(len(shp))
        lo_, hi_ = rng.randint(0, 2), rng.randint(1, 2)
        (n,) = b.node("Pad", [c, b.i64([lo_, hi_]), None, b.i64([ax])])
        res = list(shp)
        res[ax] += lo_ + hi_
        return b.out(n, dt, tuple(res), True, [c])
    d = shp[0]
    st, en, sp = rng.randint(0, d - 1), d, rng.choice([1, 2])
    (n,) = b.node("Slice", [c, b.i64([st]), b.i64([en]), None, b.i64([sp])])
    return b.out(n, dt, (len(range(d)[st:en:sp]),) + tuple(shp[1:]), True, [c])


def e_function_ref(b):
    """Model-local functions in which a node the folder evaluates (partial evaluator, reference evaluator or node-level shape
    inference) takes an attribute BY REFERENCE to a function attribute: its value is only known at the call site."""
    rng = b.rng
    if b.parent is not None or b.is_function:
        return None
    v = b.pick(lambda v: v.dtype == F32 and v.seq is None)
    if v is None:
        return None
    kind = rng.choice(["shape-start", "shape-end", "leaky-alpha", "transpose-perm", "split-axis"])
    fname = f"fn_ref_{kind.replace('-', '_')}_{len(b.functions)}"
    dom = "local.verif"
    pre = f"{fname}_"
    fx = pre + "fx"
    AP = onnx.AttributeProto
    vis = []
    kshape = rng.choice([(2, 3, 4), (3, 2), (2, 1, 3)])
    karr = nice(rng, F32, kshape)
    knode = helper.make_node("Constant", [], [pre + "k"], value=numpy_helper.from_array(karr, pre + "k"))
    if kind in ("shape-start", "shape-end"):
        rank = len(kshape)
        a = rng.randint(-rank, rank)
        if rng.random() < 0.5:
            # a run-time value whose shape the function body declares
            nodes = [knode, helper.make_node("Mul", [fx, pre + "k"], [pre + "t"])]
            tshape = bshape(v.shape, kshape) if _bcast_ok(v.shape, kshape) else None
            if tshape is None:
                return None
            vis.append(helper.make_tensor_value_info(pre + "t", TensorProto.FLOAT, list(tshape)))
            src = pre + "t"
        else:
            nodes, tshape, src = [knode], kshape, pre + "k"
        sh = helper.make_node("Shape", [src], [pre + "y"])
        sh.attribute.append(_ref_attr("start" if kind == "shape-start" else "end", "a", AP.INT))
        nodes.append(sh)
        dims = list(tshape)[a:] if kind == "shape-start" else list(tshape)[:a]
        attrs, call_attrs = ["a"], {"a": a}
        res = (I64, (len(dims),), True)
    elif kind == "leaky-alpha":
        al = rng.choice([0.5, 0.25, 2.0])
        lk = helper.make_node("LeakyRelu", [pre + "k"], [pre + "t"])
        lk.attribute.append(_ref_attr("alpha", "alpha", AP.FLOAT))
        if _bcast_ok(v.shape, kshape):
            nodes = [knode, lk, helper.make_node("Add", [fx, pre + "t"], [pre + "y"])]
            res = (F32, bshape(v.shape, kshape), v.exact)
        else:
            nodes = [knode, lk, helper.make_node("Identity", [pre + "t"], [pre + "y"])]
            res = (F32, kshape, True)
        attrs, call_attrs = ["alpha"], {"alpha": al}
    elif kind == "transpose-perm":
        perm = list(range(len(kshape)))
        rng.shuffle(perm)
        tr = helper.make_node("Transpose", [pre + "k"], [pre + "y"])
        tr.attribute.append(_ref_attr("perm", "p", AP.INTS))
        nodes = [knode, tr]
        attrs, call_attrs = ["p"], {"p": perm}
        res = (F32, tuple(kshape[i] for i in perm), True)
    else:
        rank = len(kshape)
        ax = rng.randrange(rank)
        d = kshape[ax]
        chunks = [1, d - 1] if d > 1 else [1]
        sp = helper.make_node("SplitToSequence", [pre + "k", pre + "sp"], [pre + "s"])
        sp.attribute.append(_ref_attr("axis", "a", AP.INT))
        nodes = [knode, helper.make_node("Constant", [], [pre + "sp"], value_ints=chunks), sp,
                 helper.make_node("Constant", [], [pre + "i"], value_int=0),
                 helper.make_node("SequenceAt", [pre + "s", pre + "i"], [pre + "e"]),
                 helper.make_node("Shape", [pre + "e"], [pre + "y"])]
        attrs, call_attrs = ["a"], {"a": ax if rng.random() < 0.6 else ax - rank}
        res = (I64, (rank,), True)
    f = helper.make_function(dom, fname, [fx], [pre + "y"], nodes, [helper.make_opsetid("", b.opset), helper.make_opsetid(dom, 1)], attributes=attrs)
    for vi_ in vis:
        f.value_info.append(vi_)
    b.functions.append(f)
    (n,) = b.node(fname, [v], domain=dom, **call_attrs)
    b.features.add("function-ref-attr:" + kind)
    r = b.out(n, res[0], res[1], res[2], [v], const=False)
    if not (kind == "leaky-alpha" and res[1] != kshape):
        _static(b, r)          # the shape of the result does not depend on the graph inputs
    return r


EMITTERS = [
    (e_unary, 10), (e_unary_int, 3), (e_binary, 14), (e_compare, 5), (e_logic, 3), (e_where, 4), (e_cast, 8),
    (e_shape_chain, 9), (e_reshape_like, 10), (e_concat, 5), (e_slice_gather, 7), (e_expand_tile, 5), (e_reduce, 5),
    (e_matmul, 5), (e_clip_motif, 5), (e_noop_motif, 5), (e_dropout, 5), (e_sequence, 6), (e_const_expr, 8),
    (e_string, 1), (e_if, 6), (e_loop, 4), (e_function_call, 3),
    (e_zero_dims, 4), (e_if_forward, 3), (e_loop_scan, 2), (e_optional_omitted, 3), (e_function_ref, 2),
]

PROFILES = {
    # name -> multiplicative weight overrides
    "mixed": {},
    "fold": {e_const_expr: 4, e_cast: 2, e_shape_chain: 2, e_if: 2, e_loop: 2, e_optional_omitted: 3, e_zero_dims: 2},
    "control": {e_if: 5, e_loop: 4, e_function_call: 3, e_const_expr: 2, e_if_forward: 4, e_loop_scan: 4, e_function_ref: 3},
    "rules": {e_clip_motif: 4, e_noop_motif: 4, e_reshape_like: 3, e_cast: 3, e_matmul: 3, e_expand_tile: 2, e_slice_gather: 2},
    "seq": {e_sequence: 6, e_dropout: 4, e_concat: 3, e_shape_chain: 2, e_zero_dims: 4},
}


def _vi(name, dtype, shape, sym=True, tag=""):
    if dtype == STR:
        return helper.make_tensor_value_info(name, TensorProto.STRING, list(shape))
    if sym == "unnamed":
        # dynamic dimensions without a name (neither dim_value nor dim_param)
        return helper.make_tensor_value_info(name, NP2ONNX[dtype], [None] * len(shape))
    if sym:
        return helper.make_tensor_value_info(name, NP2ONNX[dtype], [f"{name}_d{i}" for i in range(len(shape))])
    return helper.make_tensor_value_info(name, NP2ONNX[dtype], list(shape))


def gen_dag(rng, idx, profile="mixed", n_nodes=None, overridable=False, value_info="some"):
    """One random typed DAG model with >= 3 feeds.  overridable=True adds initializer-inputs."""
    opset = rng.choice([18, 18, 21])
    b = B(rng, opset=opset)
    # graph inputs: static, symbolic or zero-size shapes
    n_in = rng.randint(1, 3)
    shapes = [(2, 3), (3,), (2, 2), (1, 3), (4,), (), (2, 1, 3), (0, 3), (1,), (5, 2), (4, 3)]
    sym_inputs = {}
    for i in range(n_in):
        dt = rng.choice([F32, F32, F32, I64, F64, BOOL])
        shp = rng.choice(shapes)
        name = f"x{i}"
        b.add(Val(name, dt, shp, True, False))
        sym = rng.random() < 0.4
        if sym and shp and rng.random() < 0.4:
            sym = "unnamed"
            b.features.add("unnamed-dynamic-dims")
        sym_inputs[name] = sym
        if sym:
            b.sym_names.add(name)
        b.inputs.append(_vi(name, dt, shp, sym=sym))
        if 0 in shp:
            b.features.add("zero-size-input")
    over = []
    if overridable:
        for j in range(rng.randint(1, 2)):
            kind = rng.choice(["float", "float", "bool", "shape"])
            name = f"ov{j}"
            if kind == "float":
                arr = nice(rng, F32, rng.choice([(), (3,), (2, 3)]))
            elif kind == "bool":
                arr = np.array(rng.random() < 0.5)
            else:
                arr = np.array([-1], dtype=np.int64)
            b.inits.append(numpy_helper.from_array(arr, name))
            b.inputs.append(_vi(name, arr.dtype, arr.shape, sym=False))
            v = b.add(Val(name, arr.dtype, arr.shape, True, False))
            over.append((name, arr, kind))
            b.features.add("overridable-initializer-" + kind)
            # make sure the default is consumed in a way the optimizer finds attractive
            _use_overridable(b, v, kind)
    weights = dict(EMITTERS)
    for f, w in PROFILES[profile].items():
        weights[f] = weights[f] * w
    fs = [f for f, _ in EMITTERS]
    ws = [weights[f] for f in fs]
    target_nodes = n_nodes or rng.randint(4, 22)
    guard = 0
    while len(b.nodes) < target_nodes and guard < 200:
        guard += 1
        f = rng.choices(fs, ws)[0]
        try:
            f(b)
        except _Skip:
            pass
    # outputs: the sinks (values nobody consumes), at most 4, plus sometimes an intermediate value
    used = {i for n in b.nodes for i in n.input}
    _collect_sub_uses(b.nodes, used)
    produced = {o for n in b.nodes for o in n.output}
    sinks = [v for v in b.vals if v.seq is None and v.name in produced and v.name not in used]
    rng.shuffle(sinks)
    outs = sinks[:4]
    if not outs:
        outs = [v for v in b.vals if v.name in produced and v.seq is None][-1:]
    if not outs:
        return None
    extra = [v for v in b.vals if v.seq is None and v.name in produced and v not in outs]
    if extra and rng.random() < 0.3:
        outs.append(rng.choice(extra))
        b.features.add("intermediate-also-output")
    if rng.random() < 0.25:
        # an output produced by an Identity of another output / of a constant (output replacement paths)
        src = rng.choice(outs)
        (n,) = b.node("Identity", [src])
        outs.append(b.out(n, src.dtype, src.shape, src.exact, [src]))
        b.features.add("identity-output")
    if rng.random() < 0.2:
        # several graph outputs that are aliases (Identity, same-type Cast, ...) of ONE intermediate value
        cands = [v for v in b.vals if v.seq is None and v.name in produced and v not in outs and not v.const and v.dtype != STR]
        if cands:
            t = rng.choice(cands)
            for _ in range(rng.randint(2, 3)):
                outs.append(_alias_of(b, t))
            b.features.add("outputs-alias-one-value")
            produced = {o for n in b.nodes for o in n.output}
    # value_info: all, some or none of the intermediate values
    vis = []
    if value_info != "none":
        # annotations must not claim more than the declared inputs allow: with a symbolic input the intermediate
        # shapes are symbolic too (as ONNX shape inference would leave them)
        any_sym = any(sym_inputs.values())
        for v in b.vals:
            if v.seq is None and v.name in produced and v.name not in b.no_value_info and (value_info == "all" or rng.random() < 0.5):
                vis.append(_vi(v.name, v.dtype, v.shape, sym=any_sym and v.dtype != STR and v.name not in b.static_vi))
    have = {v.name for v in vis}
    for v in b.vals:
        # shapes that do not depend on the graph inputs (zero-size operands built from constants ...): declared concretely
        if v.name in b.static_vi and v.name in produced and v.name not in have and v.seq is None and v.dtype != STR \
                and (value_info != "none" or rng.random() < 0.5):
            vis.append(_vi(v.name, v.dtype, v.shape, sym=False))
            have.add(v.name)
    vis += [v for v in b.value_info if v.name not in have and v.name not in {o.name for o in outs}]
    out_sym = "unnamed" if "unnamed-dynamic-dims" in b.features and rng.random() < 0.7 else True
    g = helper.make_graph(b.nodes, f"g{idx}", b.inputs, [_vi(o.name, o.dtype, o.shape, sym=out_sym) for o in outs], initializer=b.inits, value_info=vis)
    opsets = [helper.make_opsetid("", opset)]
    if b.functions:
        opsets.append(helper.make_opsetid("local.verif", 1))
    m = helper.make_model(g, opset_imports=opsets, ir_version=rng.choice([8, 9, 10]), functions=b.functions)
    feeds = []
    for k in range(3):
        fd = {}
        for vi_ in b.inputs:
            if vi_.name.startswith("ov"):
                continue
            v = next(x for x in b.vals if x.name == vi_.name)
            if k == 0:
                a = np.zeros(v.shape, dtype=v.dtype) if rng.random() < 0.5 else nice(rng, v.dtype, v.shape)
            elif k == 1:
                a = np.ones(v.shape, dtype=v.dtype)
                if v.dtype != BOOL and rng.random() < 0.5:
                    a = -a
            else:
                a = nice(rng, v.dtype, v.shape)
            fd[v.name] = np.asarray(a, dtype=v.dtype).reshape(v.shape)
        feeds.append(fd)
    b.features.add(f"value_info-{value_info}")
    c = Case(m, feeds, sorted(b.features), [o.exact for o in outs], "dag:" + profile, f"dag-{profile}-{idx}",
             overridable=[(n, a, k) for n, a, k in over])
    return c


def gen_legacy(rng, idx, modern=False, all_kinds=False):
    """A small opset-11/12 model with the old attribute forms of operators whose reference implementation is split by
    version (Squeeze / Unsqueeze / ReduceSum with axes attributes, Split with a split attribute, Softmax with the
    flattening semantics), applied to constants so that the folder evaluates them; interleaved with the opset 18/21 models
    it makes the result depend on nothing the process did before."""
    opset = rng.choice([13, 18]) if modern else rng.choice([11, 12])
    F = TensorProto.FLOAT
    nodes, inits = [], []
    k = [0]

    def fresh(h):
        k[0] += 1
        return f"{'M' if modern else 'L'}{idx}_{h}{k[0]}"

    def axes_node(op, ins, outs, axes, **kw):
        """opset <= 12: axes attribute; opset >= 13: axes input (ReduceSum: 13, Squeeze / Unsqueeze: 13, Split: split input 13)"""
        if modern:
            ax = fresh("ax")
            inits.append(numpy_helper.from_array(np.array(axes, dtype=np.int64), ax))
            return helper.make_node(op, list(ins) + [ax], outs, **kw)
        return helper.make_node(op, ins, outs, **({"split": axes} if op == "Split" else {"axes": axes}), **kw)

    def const(arr):
        n = fresh("c")
        if rng.random() < 0.5:
            inits.append(numpy_helper.from_array(arr, n))
        else:
            nodes.append(helper.make_node("Constant", [], [n], value=numpy_helper.from_array(arr, n)))
        return n
    x_shape = (3, 3)
    cur = "x"
    feats = {"legacy-opset"}
    every = ["squeeze", "unsqueeze", "reducesum", "split"]                    # Softmax-11: onnx.reference and onnxruntime disagree
    for step in range(len(every) if all_kinds else rng.randint(2, 4)):
        kind = every[step] if all_kinds else rng.choice(every)
        feats.add("legacy-" + kind)
        if kind == "squeeze":
            c = const(nice(rng, F32, (1, 3, 1)))
            sq = fresh("sq")
            nodes.append(axes_node("Squeeze", [c], [sq], [0]))          # -> [3,1]
            out = fresh("m")
            nodes.append(helper.make_node("Mul", [cur, sq], [out]))
        elif kind == "unsqueeze":
            c = const(nice(rng, F32, (3,)))
            us = fresh("us")
            nodes.append(axes_node("Unsqueeze", [c], [us], [rng.choice([0, 1])]))
            out = fresh("a")
            nodes.append(helper.make_node("Add", [cur, us], [out]))
        elif kind == "reducesum":
            c = const(nice(rng, F32, (3, 2)))
            rs = fresh("rs")
            nodes.append(axes_node("ReduceSum", [c], [rs], [1], keepdims=rng.randint(0, 1)))
            out = fresh("a")
            nodes.append(helper.make_node("Add", [cur, rs], [out]))
        elif kind == "split":
            c = const(nice(rng, F32, (3, 3)))
            s1, s2 = fresh("s"), fresh("s")
            nodes.append(axes_node("Split", [c], [s1, s2], [1, 2], axis=1))
            out = fresh("m")
            nodes.append(helper.make_node("Mul", [cur, s1], [out]))
        else:
            c = const(nice(rng, F32, (3, 1, 3)))
            sm = fresh("sm")
            nodes.append(helper.make_node("Softmax", [c], [sm], axis=1))             # opset < 13: flattens from axis on
            rsh = fresh("r")
            shp = const(np.array([3, 3], dtype=np.int64))
            nodes.append(helper.make_node("Reshape", [sm, shp], [rsh]))
            out = fresh("a")
            nodes.append(helper.make_node("Add", [cur, rsh], [out]))
        cur = out
    g = helper.make_graph(nodes, f"legacy{idx}", [helper.make_tensor_value_info("x", F, list(x_shape))],
                          [helper.make_tensor_value_info(cur, F, list(x_shape))], initializer=inits)
    m = helper.make_model(g, opset_imports=[helper.make_opsetid("", opset)], ir_version=rng.choice([7, 8]) if modern else rng.choice([6, 7]))
    feeds = [{"x": np.zeros(x_shape, dtype=np.float32)}, {"x": np.ones(x_shape, dtype=np.float32)}, {"x": nice(rng, F32, x_shape)}]
    return Case(m, feeds, sorted(feats | ({"modern-twin"} if modern else set())), [True], "dag:legacy", f"dag-{'modern' if modern else 'legacy'}-{idx}")


class _Skip(Exception):
    pass


def _collect_sub_uses(nodes, used):
    for n in nodes:
        for a in n.attribute:
            if a.type == onnx.AttributeProto.GRAPH:
                used.update(o.name for o in a.g.output)
                for sn in a.g.node:
                    used.update(sn.input)
                _collect_sub_uses(a.g.node, used)


def _use_overridable(b, v, kind):
    """Consume an initializer-input in the positions the folder looks at constants."""
    rng = b.rng
    if kind == "float":
        x = b.pick(lambda w: w.dtype == F32 and _bcast_ok(w.shape, v.shape) and w is not v)
        q = rng.random()
        if q < 0.4 or x is None:
            c = b.const(nice(rng, F32, ()))
            (n,) = b.node(rng.choice(["Add", "Mul"]), [v, c])          # all-"constant" node: must not be folded
            b.out(n, F32, v.shape, True, [v], const=False)
        elif q < 0.7:
            (n,) = b.node("Add", [x, v])
            b.out(n, F32, bshape(x.shape, v.shape), x.exact, [x, v], const=False)
        else:
            (n,) = b.node("Identity", [v])
            i = b.out(n, F32, v.shape, True, [v], const=False)
            (n,) = b.node("Neg", [i])
            b.out(n, F32, v.shape, True, [i], const=False)
    elif kind == "bool":
        x = b.pick(lambda w: w.dtype == F32 and w is not v)
        if x is None:
            return
        if rng.random() < 0.5:
            sb1, sb2 = _sub_body(b, "then", 1), _sub_body(b, "else", 1)
            (t,) = sb1.node("Neg", [x])
            (e,) = sb2.node("Abs", [x])
            g1 = helper.make_graph(sb1.nodes, "ovthen", [], [_vi(t, F32, x.shape, sym=False)])
            g2 = helper.make_graph(sb2.nodes, "ovelse", [], [_vi(e, F32, x.shape, sym=False)])
            (n,) = b.node("If", [v], then_branch=g1, else_branch=g2)
            b.out(n, F32, x.shape, x.exact, [x], const=False)
            b.features.add("overridable-if-cond")
        else:
            ratio = b.const(np.array(0.0, dtype=np.float32))
            (n,) = b.node("Dropout", [x, ratio, v])
            b.out(n, F32, x.shape, x.exact, [x], const=False)
            b.features.add("overridable-dropout-training-mode")
    else:
        x = b.pick(lambda w: w.dtype == F32 and w.rank == 1 and w is not v)
        if x is None:
            return
        (n,) = b.node("Reshape", [x, v])
        b.out(n, F32, x.shape, x.exact, [x], const=False)
        b.features.add("overridable-reshape-shape")


def override_values(rng, case):
    """Values for the initializer-inputs that differ from the defaults (same shapes/dtypes)."""
    res = {}
    for name, arr, kind in case.overridable:
        if kind == "float":
            res[name] = np.asarray(arr + np.asarray(rng.choice([1, -2, 3]), dtype=arr.dtype), dtype=arr.dtype).reshape(arr.shape)
        elif kind == "bool":
            res[name] = np.array(not bool(arr))
        else:
            res[name] = np.array([3 if False else -1], dtype=np.int64) if rng.random() < 0.3 else None
    return {k: v for k, v in res.items() if v is not None}


# ------------------------------------------------------------------------------------------- lifted node tests

NODE_DIR = os.path.join(os.path.dirname(onnx.__file__), "backend", "test", "data", "node")


def node_test_dirs():
    return sorted(d for d in glob.glob(os.path.join(NODE_DIR, "test_*")) if os.path.exists(os.path.join(d, "model.onnx")))


def _load_pb(path, typ):
    with open(path, "rb") as f:
        data = f.read()
    if typ.HasField("tensor_type"):
        t = onnx.TensorProto()
        t.ParseFromString(data)
        return t
    return None


def lift_node_test(rng, d, mode):
    """mode: const-init | const-node | wrap-if | chain.  Returns Case or None when the test cannot be lifted
    (sequence/optional/map inputs, no data set)."""
    m = onnx.load(os.path.join(d, "model.onnx"))
    ds = os.path.join(d, "test_data_set_0")
    if not os.path.isdir(ds):
        return None
    ins, outs = [], []
    init_names = {i.name for i in m.graph.initializer}
    real_inputs = [i for i in m.graph.input if i.name not in init_names]
    for k, vi_ in enumerate(real_inputs):
        p = os.path.join(ds, f"input_{k}.pb")
        if not os.path.exists(p):
            return None
        t = _load_pb(p, vi_.type)
        if t is None:
            return None
        t.name = vi_.name
        ins.append(t)
    for k, vo in enumerate(m.graph.output):
        p = os.path.join(ds, f"output_{k}.pb")
        if not os.path.exists(p):
            return None
        t = _load_pb(p, vo.type)
        if t is None:
            return None
        try:
            outs.append(numpy_helper.to_array(t))
        except Exception:
            return None
    name = os.path.basename(d)
    new = onnx.ModelProto()
    new.CopyFrom(m)
    g = new.graph
    feeds = [{}, {}, {}]
    feats = {"lifted-" + mode}
    if mode in ("const-init", "const-node", "wrap-if"):
        del g.input[:]
        if mode == "const-node":
            cnodes = [helper.make_node("Constant", [], [t.name], value=t) for t in ins]
            old = list(g.node)
            del g.node[:]
            g.node.extend(cnodes + old)
        else:
            g.initializer.extend(ins)
        if mode == "wrap-if":
            # the whole original graph becomes the then-branch of an If on a constant / on an input
            inner = onnx.GraphProto()
            inner.CopyFrom(g)
            inner.name = "then_body"
            del inner.input[:]
            renamed = []
            for o in inner.output:
                renamed.append(o.name)
            els = onnx.GraphProto()
            els.CopyFrom(inner)
            els.name = "else_body"
            _rename_graph(els, "e_")
            dyn = rng.random() < 0.5
            outer_nodes = []
            if not dyn:
                outer_nodes.append(helper.make_node("Constant", [], ["lift_cond"], value=numpy_helper.from_array(np.array(True), "lift_cond")))
            outer_nodes.append(helper.make_node("If", ["lift_cond"], ["lifted_" + o for o in renamed], then_branch=inner, else_branch=els))
            outputs = []
            for o in m.graph.output:
                vo = onnx.ValueInfoProto()
                vo.CopyFrom(o)
                vo.name = "lifted_" + o.name
                outputs.append(vo)
            g2 = helper.make_graph(outer_nodes, "lifted", [helper.make_tensor_value_info("lift_cond", TensorProto.BOOL, [])] if dyn else [], outputs)
            new.graph.CopyFrom(g2)
            if dyn:
                feeds = [{"lift_cond": np.array(True)}, {"lift_cond": np.array(False)}, {"lift_cond": np.array(True)}]
            feats.add("lifted-if-" + ("dynamic" if dyn else "const"))
    elif mode == "chain":
        # keep the inputs, append Identity on every output and feed the recorded inputs
        try:
            fd = {t.name: numpy_helper.to_array(t) for t in ins}
        except Exception:
            return None
        feeds = [fd, fd, fd]
        for o in g.output:
            g.node.append(helper.make_node("Identity", [o.name], ["chained_" + o.name]))
            o.name = "chained_" + o.name
    return Case(new, feeds, sorted(feats | {"op:" + (m.graph.node[0].op_type if m.graph.node else "none")}), [False] * len(outs),
                "lifted:" + mode, f"{name}:{mode}", expected=outs)


def _rename_graph(g, prefix):
    local = {o for n in g.node for o in n.output} | {i.name for i in g.initializer}
    for n in g.node:
        for k, i in enumerate(n.input):
            if i in local:
                n.input[k] = prefix + i
        for k, o in enumerate(n.output):
            n.output[k] = prefix + o
        for a in n.attribute:
            if a.type == onnx.AttributeProto.GRAPH:
                _rename_captured(a.g, local, prefix)
    for i in g.initializer:
        i.name = prefix + i.name
    for o in g.output:
        if o.name in local:
            o.name = prefix + o.name
    for v in g.value_info:
        if v.name in local:
            v.name = prefix + v.name


def _rename_captured(g, outer_local, prefix):
    inner = {o for n in g.node for o in n.output} | {i.name for i in g.initializer} | {i.name for i in g.input}
    for n in g.node:
        for k, i in enumerate(n.input):
            if i in outer_local and i not in inner:
                n.input[k] = prefix + i
        for a in n.attribute:
            if a.type == onnx.AttributeProto.GRAPH:
                _rename_captured(a.g, outer_local - inner, prefix)


def lifted_cases(rng, dirs, modes=("const-init", "const-node", "wrap-if", "chain")):
    for d in dirs:
        mode = rng.choice(modes)
        try:
            c = lift_node_test(rng, d, mode)
        except Exception:
            c = None
        if c is not None:
            yield c


# ------------------------------------------------------------------------------------------- overridable defaults reached through aliases

ALIAS_VARIANTS = ("identity", "identity-chain", "same-type-cast", "dropout-inference", "if-const-forward", "if-dyn-body",
                  "loop-body", "identity-int", "two-consumers",
                  # the alias sits in an OPTIONAL input slot of a node whose other inputs are constants: a folder that evaluates
                  # the node although it (now) reads a graph input sees "input omitted"
                  "opt-clip-min", "opt-clip-max", "opt-reducesum-axes", "opt-squeeze-axes", "opt-pad-value", "opt-gemm-bias")


def _gen_alias_optional_slot(rng, idx, variant):
    F = TensorProto.FLOAT
    nodes, inits = [], []

    def vi(name, shape, t=F):
        return helper.make_tensor_value_info(name, t, list(shape))

    def cst(name, arr):
        if rng.random() < 0.5:
            inits.append(numpy_helper.from_array(arr, name))
        else:
            nodes.append(helper.make_node("Constant", [], [name], value=numpy_helper.from_array(arr, name)))
    alias_op = rng.choice(["Identity", "Identity", "chain"])

    def alias():
        if alias_op == "chain":
            nodes.append(helper.make_node("Identity", ["ov0"], ["al0"]))
            nodes.append(helper.make_node("Identity", ["al0"], ["al"]))
        else:
            nodes.append(helper.make_node("Identity", ["ov0"], ["al"]))
    base = np.array([-4, -1, 0, 2, 5, 9], dtype=np.float32)
    if variant in ("opt-clip-min", "opt-clip-max"):
        ov = np.array(rng.choice([1, 3, -2]), dtype=np.float32)
        ov2 = [np.array(4, dtype=np.float32), np.array(-3, dtype=np.float32)]
        cst("cst", base)
        alias()
        nodes.append(helper.make_node("Clip", ["cst", "al"] if variant == "opt-clip-min" else ["cst", "", "al"], ["fo"]))
        fo_shape = (6,)
    elif variant == "opt-reducesum-axes":
        ov = np.array([rng.choice([0, 1])], dtype=np.int64)
        ov2 = [np.array([1 - int(ov[0])], dtype=np.int64), np.array([-1], dtype=np.int64)]
        cst("cst", base.reshape(2, 3))
        alias()
        nodes.append(helper.make_node("ReduceSum", ["cst", "al"], ["fo"], keepdims=1))
        fo_shape = ("r0", "r1")
    elif variant == "opt-squeeze-axes":
        ov = np.array([0], dtype=np.int64)
        ov2 = [np.array([2], dtype=np.int64), np.array([-1], dtype=np.int64)]
        cst("cst", base.reshape(1, 6, 1))
        alias()
        nodes.append(helper.make_node("Squeeze", ["cst", "al"], ["fo"]))
        fo_shape = ("r0", "r1")
    elif variant == "opt-pad-value":
        ov = np.array(rng.choice([1.5, -2, 7]), dtype=np.float32)
        ov2 = [np.array(4, dtype=np.float32), np.array(-3, dtype=np.float32)]
        cst("cst", base)
        cst("pads", np.array([1, 2], dtype=np.int64))
        alias()
        nodes.append(helper.make_node("Pad", ["cst", "pads", "al"], ["fo"]))
        fo_shape = (9,)
    else:
        ov = np.array([1, -2, 3], dtype=np.float32)
        ov2 = [np.array([4, 4, 4], dtype=np.float32), np.array([0, 1, 0], dtype=np.float32)]
        cst("cst", base.reshape(2, 3))
        cst("wgt", np.array([[1, 0, 2], [0, 1, 0], [1, 1, 1]], dtype=np.float32))
        alias()
        nodes.append(helper.make_node("Gemm", ["cst", "wgt", "al"], ["fo"]))
        fo_shape = (2, 3)
    inits.insert(0, numpy_helper.from_array(ov, "ov0"))
    nodes.append(helper.make_node("Abs", ["x0"], ["y"]))
    T = NP2ONNX[ov.dtype]
    g = helper.make_graph(nodes, f"alias{idx}", [vi("x0", (3,)), vi("ov0", ov.shape, T)], [vi("y", (3,)), vi("fo", fo_shape)], initializer=inits)
    m = helper.make_model(g, opset_imports=[helper.make_opsetid("", rng.choice([18, 21]))], ir_version=rng.choice([8, 9, 10]))
    feeds = [{"x0": np.ones(3, dtype=np.float32)}, {"x0": nice(rng, F32, (3,)), "ov0": ov2[0]}, {"x0": nice(rng, F32, (3,)), "ov0": ov2[1]}]
    return Case(m, feeds, sorted({"overridable-alias:" + variant, "alias-in-optional-input-slot", "alias-by-" + alias_op}), [True, True], "alias",
                f"alias-{variant}-{idx}", overridable=[("ov0", ov, "float")])


def gen_overridable_alias(rng, idx, variant=None):
    """An initializer that is also a graph input (an overridable default) reaches an otherwise constant-foldable node NOT
    directly but through a value whose symbolic value in the folder is that graph input: Identity (also chained), a Cast to
    the same type / a Dropout in inference mode (partial evaluators that become Identity), the Identity of a branch of an If
    on a constant condition (inlined, then forwarded), and the same inside If / Loop bodies.  Every model also has an
    ordinary input.  Feeds: one with the defaults, two with override values (all are valid inputs of the model)."""
    variant = variant or ALIAS_VARIANTS[idx % len(ALIAS_VARIANTS)]
    if variant.startswith("opt-"):
        return _gen_alias_optional_slot(rng, idx, variant)
    is_int = variant == "identity-int"
    dt = I64 if is_int else F32
    T = NP2ONNX[dt]
    shp = rng.choice([(3,), (2, 3), (), (1, 3)])
    ov = nice(rng, dt, shp)
    # defaults 0 / 1 / -1 would let the constant-matching rewrite rules (x+0, x*1: known findings of C05/C04) fire on the default;
    # this family is about the folder
    ov = np.where(np.isin(ov, (0, 1, -1)), np.asarray(ov + 3, dtype=dt), ov).astype(dt).reshape(shp)
    c = nice(rng, dt, rng.choice([(), shp]))
    if not is_int:
        c = (c + np.float32(0.5)).astype(dt) if rng.random() < 0.5 else c
    xs = rng.choice([(3,), (2, 3), (1, 3)])
    oshape = tuple(np.broadcast_shapes(shp, xs))
    op = rng.choice(["Add", "Mul", "Sub"] if not is_int else ["Add", "Mul", "Sub"])
    nodes, inits = [], [numpy_helper.from_array(ov, "ov0")]
    c_how = rng.choice(["init", "node"])
    if c_how == "init":
        inits.append(numpy_helper.from_array(c, "cst"))
    else:
        nodes.append(helper.make_node("Constant", [], ["cst"], value=numpy_helper.from_array(c, "cst")))
    feats = {"overridable-alias:" + variant, "overridable-initializer-" + ("int" if is_int else "float"), "constant-" + c_how}

    def vi(name, shape, t=T):
        return helper.make_tensor_value_info(name, t, list(shape))

    alias = "al"
    if variant in ("identity", "identity-int", "two-consumers"):
        nodes.append(helper.make_node("Identity", ["ov0"], [alias]))
    elif variant == "identity-chain":
        nodes.append(helper.make_node("Identity", ["ov0"], ["al0"]))
        nodes.append(helper.make_node("Identity", ["al0"], [alias]))
    elif variant == "same-type-cast":
        nodes.append(helper.make_node("Cast", ["ov0"], [alias], to=T))
    elif variant == "dropout-inference":
        nodes.append(helper.make_node("Dropout", ["ov0"], [alias]))
    elif variant == "if-const-forward":
        cond_how = rng.choice(["init", "node"])
        cv = bool(rng.random() < 0.5)
        if cond_how == "init":
            inits.append(numpy_helper.from_array(np.array(cv), "cnd"))
        else:
            nodes.append(helper.make_node("Constant", [], ["cnd"], value=numpy_helper.from_array(np.array(cv), "cnd")))
        g1 = helper.make_graph([helper.make_node("Identity", ["ov0"], ["bt"])], "fwd_then", [], [vi("bt", shp)])
        g2 = helper.make_graph([helper.make_node("Identity", ["ov0"], ["be0"]), helper.make_node("Identity", ["be0"], ["be"])], "fwd_else", [], [vi("be", shp)])
        nodes.append(helper.make_node("If", ["cnd"], [alias], then_branch=g1, else_branch=g2))
    if variant in ("if-dyn-body", "loop-body"):
        # the alias and its foldable consumer live inside a body; the default is captured from the outer scope
        body_nodes = [helper.make_node("Identity", ["ov0"], ["bal"]), helper.make_node(op, ["bal", "cst"], ["bfo"])]
        if variant == "if-dyn-body":
            nodes.append(helper.make_node("ReduceSum", ["x0"], ["rs"], keepdims=0))
            nodes.append(helper.make_node("Constant", [], ["zero"], value=numpy_helper.from_array(np.array(0, dtype=dt), "zero")))
            nodes.append(helper.make_node("Greater", ["rs", "zero"], ["dc"]))
            g1 = helper.make_graph(body_nodes, "ov_then", [], [vi("bfo", np.broadcast_shapes(shp, c.shape))])
            g2 = helper.make_graph([helper.make_node("Neg", ["ov0"], ["bne"])], "ov_else", [], [vi("bne", shp)])
            nodes.append(helper.make_node("If", ["dc"], ["fo"], then_branch=g1, else_branch=g2))
        else:
            nodes.append(helper.make_node("Constant", [], ["trip"], value=numpy_helper.from_array(np.array(2, dtype=np.int64), "trip")))
            nodes.append(helper.make_node("Constant", [], ["lc"], value=numpy_helper.from_array(np.array(True), "lc")))
            carried_shape = tuple(np.broadcast_shapes(shp, c.shape))
            nodes.append(helper.make_node("Constant", [], ["acc0"], value=numpy_helper.from_array(np.zeros(carried_shape, dtype=dt), "acc0")))
            body = helper.make_graph(body_nodes + [helper.make_node("Add", ["acc", "bfo"], ["acc_o"]), helper.make_node("Identity", ["lcond"], ["lcond_o"])],
                                     "ov_loop", [vi("it", (), TensorProto.INT64), vi("lcond", (), TensorProto.BOOL), vi("acc", carried_shape)],
                                     [vi("lcond_o", (), TensorProto.BOOL), vi("acc_o", carried_shape)])
            nodes.append(helper.make_node("Loop", ["trip", "lc", "acc0"], ["fo"], body=body))
        fo_shape = tuple(np.broadcast_shapes(shp, c.shape))
    else:
        ins = [alias, "cst"] if rng.random() < 0.6 else ["cst", alias]
        nodes.append(helper.make_node(op, ins, ["fo"]))
        fo_shape = tuple(np.broadcast_shapes(shp, c.shape))
    outs = []
    if variant == "two-consumers":
        # the graph input itself is also consumed directly (guarded) next to the aliased consumer
        nodes.append(helper.make_node("Neg", ["ov0"], ["dn"]))
        nodes.append(helper.make_node("Add", ["dn", "fo"], ["fo2"]))
        last = "fo2"
    else:
        last = "fo"
    oshape = tuple(np.broadcast_shapes(fo_shape, xs))
    if rng.random() < 0.5:
        nodes.append(helper.make_node("Mul", ["x0", last], ["y"]))
        outs.append(vi("y", oshape))
        exact = [True]
        if rng.random() < 0.5:
            outs.append(vi(last, fo_shape))
            exact.append(True)
            feats.add("intermediate-also-output")
    else:
        nodes.append(helper.make_node("Abs", ["x0"], ["y"]))
        outs += [vi("y", xs), vi(last, fo_shape)]
        exact = [True, True]
        feats.add("folded-value-is-graph-output")
    g = helper.make_graph(nodes, f"alias{idx}", [vi("x0", xs), vi("ov0", shp)], outs, initializer=inits)
    m = helper.make_model(g, opset_imports=[helper.make_opsetid("", rng.choice([18, 21]))], ir_version=rng.choice([8, 9, 10]))
    feeds = []
    for k in range(3):
        fd = {"x0": np.ones(xs, dtype=dt) if k == 0 else nice(rng, dt, xs)}
        if k:
            fd["ov0"] = np.asarray(ov + np.asarray(rng.choice([1, -2, 3]), dtype=dt), dtype=dt).reshape(shp)
        feeds.append(fd)
    return Case(m, feeds, sorted(feats), exact, "alias", f"alias-{variant}-{idx}", overridable=[("ov0", ov, "float")])


# ------------------------------------------------------------------------------------------- CSE / DCE / dedup families

PASS_VARIANTS = ("twins", "twin-is-output", "twins-both-outputs", "twin-used-in-if", "twin-in-two-scopes", "attr-zero-sign", "const-zero-sign",
                 "dead-chain-and-dead-if", "dup-init-zero-sign", "dup-init-nan-payload", "dup-init-strings", "dup-init-dtypes", "const-only-in-subgraph",
                 "slice-unnamed-dynamic-axis", "slices-chained-dynamic-axis",
                 "scatternd-permuted-full-cover", "scatternd-one-swap", "scatternd-identity-indices", "scatternd-duplicate-rows",
                 "dropout-runtime-training-mode", "dropout-computed-training-mode", "dropout-runtime-ratio")


def gen_pass_case(rng, idx, variant=None):
    """Small models aimed at the onnx_ir stages of optimize_ir: common subexpressions (also across scopes, as graph outputs,
    with attributes / constants that are == in Python but not the same: 0.0 vs -0.0), dead nodes (chains, a dead If whose
    body reads outer values), duplicated initializers that must NOT be merged (-0.0 / 0.0, NaN payloads, different dtypes
    with the same bytes) and that may (equal strings), constants used only inside subgraphs."""
    variant = variant or PASS_VARIANTS[idx % len(PASS_VARIANTS)]
    F = TensorProto.FLOAT
    nodes, inits, outs, exact = [], [], [], []
    ins = [helper.make_tensor_value_info("x", F, [3])]

    def vi(name, shape, t=F):
        return helper.make_tensor_value_info(name, t, list(shape))

    def init(name, arr):
        inits.append(numpy_helper.from_array(np.asarray(arr), name))
    feeds = [{"x": np.array([-2, 0, 3], dtype=np.float32)}, {"x": np.array([1, -1, 0.5], dtype=np.float32)}, {"x": nice(rng, F32, (3,))}]
    if variant.startswith("twin"):
        init("c", np.array([1, 2, 3], dtype=np.float32))
        op = rng.choice(["Add", "Mul", "Sub"])
        nodes += [helper.make_node(op, ["x", "c"], ["t1"]), helper.make_node("Neg", ["t1"], ["m"]), helper.make_node(op, ["x", "c"], ["t2"])]
        if variant == "twins":
            nodes.append(helper.make_node("Mul", ["m", "t2"], ["y"]))
            outs, exact = [vi("y", [3])], [True]
        elif variant == "twin-is-output":
            nodes.append(helper.make_node("Abs", ["t2"], ["y"]))
            outs, exact = [vi("y", [3]), vi("t2", [3]), vi("m", [3])], [True, True, True]
        elif variant == "twins-both-outputs":
            outs, exact = [vi("t1", [3]), vi("t2", [3]), vi("m", [3])], [True, True, True]
        else:
            ins.append(helper.make_tensor_value_info("b", TensorProto.BOOL, []))
            for fd in feeds:
                fd["b"] = np.array(rng.random() < 0.5)
            inner = [helper.make_node("Add", ["t2", "m"], ["bt"])]
            if variant == "twin-in-two-scopes":
                inner = [helper.make_node(op, ["x", "c"], ["t3"]), helper.make_node("Add", ["t3", "t2"], ["bt"])]
            g1 = helper.make_graph(inner, "tb", [], [vi("bt", [3])])
            g2 = helper.make_graph([helper.make_node("Identity", ["t1"], ["be"])], "eb", [], [vi("be", [3])])
            nodes.append(helper.make_node("If", ["b"], ["y"], then_branch=g1, else_branch=g2))
            outs, exact = [vi("y", [3])], [True]
    elif variant == "attr-zero-sign":
        # LeakyRelu(x, alpha) = alpha * x for x < 0: alpha = 0.0 gives -0.0, alpha = -0.0 gives +0.0; 1 / (.) tells them apart
        nodes += [helper.make_node("LeakyRelu", ["x"], ["l1"], alpha=0.0), helper.make_node("LeakyRelu", ["x"], ["l2"], alpha=-0.0)]
        init("one", np.array(1, dtype=np.float32))
        nodes += [helper.make_node("Div", ["one", "l1"], ["y1"]), helper.make_node("Div", ["one", "l2"], ["y2"])]
        outs, exact = [vi("y1", [3]), vi("y2", [3])], [True, True]
        feeds = [{"x": np.array([-2, -1, 3], dtype=np.float32)}, {"x": np.array([-1, -1, -0.5], dtype=np.float32)}, {"x": np.array([-4, 2, 1], dtype=np.float32)}]
    elif variant == "const-zero-sign":
        nodes += [helper.make_node("Constant", [], ["z1"], value_float=0.0), helper.make_node("Constant", [], ["z2"], value_float=-0.0)]
        nodes += [helper.make_node("Mul", ["x", "z1"], ["p1"]), helper.make_node("Mul", ["x", "z2"], ["p2"])]
        init("one", np.array(1, dtype=np.float32))
        nodes += [helper.make_node("Div", ["one", "p1"], ["y1"]), helper.make_node("Div", ["one", "p2"], ["y2"])]
        outs, exact = [vi("y1", [3]), vi("y2", [3])], [True, True]
        feeds = [{"x": np.array([2, 1, 3], dtype=np.float32)}, {"x": np.array([1, 1, 0.5], dtype=np.float32)}, {"x": np.array([4, 2, 1], dtype=np.float32)}]
    elif variant == "dead-chain-and-dead-if":
        ins.append(helper.make_tensor_value_info("b", TensorProto.BOOL, []))
        for fd in feeds:
            fd["b"] = np.array(rng.random() < 0.5)
        init("c", np.array([1, 2, 3], dtype=np.float32))
        init("unused", np.array([7], dtype=np.float32))
        nodes += [helper.make_node("Relu", ["x"], ["r"]), helper.make_node("Add", ["r", "c"], ["d1"]), helper.make_node("Neg", ["d1"], ["d2"]),
                  helper.make_node("Abs", ["x"], ["keep"])]
        g1 = helper.make_graph([helper.make_node("Mul", ["keep", "c"], ["bt"])], "tb", [], [vi("bt", [3])])
        g2 = helper.make_graph([helper.make_node("Neg", ["keep"], ["be"])], "eb", [], [vi("be", [3])])
        nodes.append(helper.make_node("If", ["b"], ["dead_if"], then_branch=g1, else_branch=g2))
        g3 = helper.make_graph([helper.make_node("Exp", ["r"], ["dead_inner"]), helper.make_node("Mul", ["r", "c"], ["bt2"])], "tb2", [], [vi("bt2", [3])])
        g4 = helper.make_graph([helper.make_node("Neg", ["r"], ["be2"])], "eb2", [], [vi("be2", [3])])
        nodes.append(helper.make_node("If", ["b"], ["y"], then_branch=g3, else_branch=g4))
        outs, exact = [vi("y", [3])], [True]
    elif variant.startswith("dup-init"):
        if variant == "dup-init-zero-sign":
            a, b = np.array([0.0, 1.0], dtype=np.float32), np.array([-0.0, 1.0], dtype=np.float32)
        elif variant == "dup-init-nan-payload":
            a = np.array([0x7fc00000, 0x3f800000], dtype=np.uint32).view(np.float32)
            b = np.array([0x7fc00001, 0x3f800000], dtype=np.uint32).view(np.float32)
        elif variant == "dup-init-dtypes":
            a, b = np.array([1, 0], dtype=np.int32), np.array([1.4e-45, 0], dtype=np.float32)       # same bytes, different element type
        else:
            a, b = np.array(["ab", "c"], dtype=object), np.array(["ab", "c"], dtype=object)
        init("w1", a)
        init("w2", b)
        init("w3", a.copy())
        if variant == "dup-init-strings":
            init("w4", np.array(["ab", "d"], dtype=object))
            nodes += [helper.make_node("StringConcat", ["w1", "w2"], ["s1"]), helper.make_node("StringConcat", ["w3", "w4"], ["s2"]), helper.make_node("Abs", ["x"], ["y"])]
            outs, exact = [vi("y", [3]), vi("s1", [2], TensorProto.STRING), vi("s2", [2], TensorProto.STRING)], [True, True, True]
        elif variant == "dup-init-dtypes":
            nodes += [helper.make_node("Cast", ["w1"], ["k1"], to=F), helper.make_node("Add", ["k1", "w2"], ["k2"]), helper.make_node("Cast", ["w3"], ["k3"], to=F),
                      helper.make_node("Add", ["k2", "k3"], ["y0"]), helper.make_node("Abs", ["x"], ["y"])]
            outs, exact = [vi("y", [3]), vi("y0", [2])], [True, True]
        else:
            init("one", np.array(1, dtype=np.float32))
            nodes += [helper.make_node("Div", ["one", "w1"], ["q1"]), helper.make_node("Div", ["one", "w2"], ["q2"]), helper.make_node("Div", ["one", "w3"], ["q3"]),
                      helper.make_node("Abs", ["x"], ["y"])]
            outs, exact = [vi("y", [3]), vi("q1", [2]), vi("q2", [2]), vi("q3", [2])], [True] * 4
    elif variant in ("slice-unnamed-dynamic-axis", "slices-chained-dynamic-axis"):
        # a Slice that really drops rows along an axis whose extent is an anonymous unknown dimension on both sides (a rule that
        # compares recorded shapes must not take [?,4] -> [?,4] for a no-op)
        ins = [helper.make_tensor_value_info("x", F, [None, 4])]
        for nm, arr in (("st", [1]), ("en", [3]), ("ax", [0]), ("sp", [1]), ("st2", [0]), ("en2", [1])):
            init(nm, np.array(arr, dtype=np.int64))
        if variant == "slice-unnamed-dynamic-axis":
            nodes.append(helper.make_node("Slice", ["x", "st", "en", "ax", "sp"], ["y"]))
        else:
            nodes += [helper.make_node("Slice", ["x", "st", "en", "ax", "sp"], ["s1"]), helper.make_node("Slice", ["s1", "st2", "en2", "ax", "sp"], ["y"])]
        outs, exact = [helper.make_tensor_value_info("y", F, [None, 4])], [True]
        feeds = [{"x": np.arange(24, dtype=np.float32).reshape(6, 4)}, {"x": np.ones((4, 4), dtype=np.float32)}, {"x": nice(rng, F32, (5, 4))}]
    elif variant.startswith("scatternd-"):
        # ScatterND(data, constant [n,1] indices, updates) with data.shape == updates.shape: the default rule ScatterAllStatic may replace it
        # by Identity(updates) only when the indices are exactly 0..n-1 IN THAT ORDER (updates[i] goes to row indices[i])
        n, k = rng.choice([(3, 2), (4, 2), (4, 3), (5, 1)])
        if variant == "scatternd-identity-indices":
            idxs = list(range(n))
        elif variant == "scatternd-one-swap":
            idxs = list(range(n))
            i = rng.randrange(n - 1)
            idxs[i], idxs[i + 1] = idxs[i + 1], idxs[i]
        elif variant == "scatternd-duplicate-rows":
            idxs = [rng.randrange(n - 1) for _ in range(n)]       # some row is never written: data shows through
        else:
            idxs = rng.choice([list(reversed(range(n))), list(range(1, n)) + [0], [n - 1] + list(range(n - 1))])
        ins = [vi("x", [n, k]), vi("u", [n, k])]
        init("idx", np.array(idxs, dtype=np.int64).reshape(n, 1))
        nodes.append(helper.make_node("ScatterND", ["x", "idx", "u"], ["s"]))
        nodes.append(helper.make_node("Neg", ["s"], ["y"]))
        outs, exact = [vi("y", [n, k]), vi("s", [n, k])], [True, True]
        rows = np.arange(n * k, dtype=np.float32).reshape(n, k)
        feeds = [{"x": -rows - 1, "u": rows * 2 + 1}, {"x": np.zeros((n, k), dtype=np.float32), "u": rows[::-1].copy() + 0.5},
                 {"x": nice(rng, F32, (n, k)), "u": rows - 3}]
        if variant == "scatternd-duplicate-rows":
            # rows written twice get the same update on every runtime only if the competing updates are equal
            for fd in feeds:
                for r in set(idxs):
                    js = [j for j, q in enumerate(idxs) if q == r]
                    for j in js[1:]:
                        fd["u"][j] = fd["u"][js[0]]
    elif variant.startswith("dropout-"):
        # Dropout whose training_mode (or ratio) is only known at run time must stay: in training mode with ratio 0.5 every element of y is 0 or
        # 2x whatever the random mask, so  w = y * (y - 2x)  and  v = Where(mask, y - 2x, y)  are 0 on every runtime; a Dropout wrongly
        # replaced by Identity gives  -x*x  instead (what inference mode gives, too)
        ins = [vi("x", [4]), helper.make_tensor_value_info("tm", TensorProto.BOOL, [])]
        init("two", np.array(2, dtype=np.float32))
        tm = "tm"
        if variant == "dropout-computed-training-mode":
            ins.append(helper.make_tensor_value_info("tm2", TensorProto.BOOL, []))
            nodes.append(helper.make_node("Not", ["tm2"], ["ntm2"]))
            nodes.append(helper.make_node("And", ["tm", "ntm2"], ["tmc"]))
            tm = "tmc"
        if variant == "dropout-runtime-ratio":
            ins.append(vi("ratio", []))
            ratio = "ratio"
        else:
            init("ratio", np.array(0.5, dtype=np.float32))
            ratio = "ratio"
        nodes.append(helper.make_node("Dropout", ["x", ratio, tm], ["y", "mask"], seed=rng.randrange(1, 1000)))
        nodes += [helper.make_node("Mul", ["x", "two"], ["x2"]), helper.make_node("Sub", ["y", "x2"], ["d"]), helper.make_node("Mul", ["y", "d"], ["w"]),
                  helper.make_node("Where", ["mask", "d", "y"], ["v"])]
        outs, exact = [vi("w", [4]), vi("v", [4])], [True, True]
        xs = [np.array([1, -2, 3, 4], dtype=np.float32), np.array([0.5, 8, -1, 2], dtype=np.float32), np.array([-3, 5, 7, -0.25], dtype=np.float32)]
        feeds = [{"x": xs[0], "tm": np.array(True)}, {"x": xs[1], "tm": np.array(False)}, {"x": xs[2], "tm": np.array(True)}]
        for fd in feeds:
            if variant == "dropout-computed-training-mode":
                fd["tm2"] = np.array(False)
            if variant == "dropout-runtime-ratio":
                fd["ratio"] = np.array(0.5, dtype=np.float32)
    else:   # const-only-in-subgraph
        ins.append(helper.make_tensor_value_info("b", TensorProto.BOOL, []))
        for fd in feeds:
            fd["b"] = np.array(rng.random() < 0.5)
        nodes.append(helper.make_node("Constant", [], ["k"], value=numpy_helper.from_array(np.array([1, 2, 3], dtype=np.float32), "k")))
        nodes.append(helper.make_node("Constant", [], ["k2"], value_floats=[1.0, 2.0, 3.0]))
        g1 = helper.make_graph([helper.make_node("Constant", [], ["ki"], value_floats=[1.0, 2.0, 3.0]), helper.make_node("Add", ["x", "ki"], ["s"]),
                                helper.make_node("Mul", ["s", "k"], ["bt"])], "tb", [], [vi("bt", [3])])
        g2 = helper.make_graph([helper.make_node("Sub", ["x", "k2"], ["be"])], "eb", [], [vi("be", [3])])
        nodes.append(helper.make_node("If", ["b"], ["y"], then_branch=g1, else_branch=g2))
        outs, exact = [vi("y", [3])], [True]
    g = helper.make_graph(nodes, f"pass{idx}", ins, outs, initializer=inits)
    m = helper.make_model(g, opset_imports=[helper.make_opsetid("", 21 if variant == "dup-init-strings" else rng.choice([18, 21]))], ir_version=rng.choice([9, 10]))
    return Case(m, feeds, ["pass-family:" + variant], exact, "passfam", f"pass-{variant}-{idx}")
