(* C08 property theorems, families aten_unfold and aten_unbind: statements only.

   aten_unfold builds window start indices with Range(0, n - (size - 1), step), adds range(size) by broadcasting, Gathers
   along the (normalised) dimension and moves the in-window axis to the end with a trace-time perm; aten_unbind (static
   extent) emits Slice(i, i + 1) + Squeeze per slab.  Axis-level statements are over the list of slabs (slab type
   arbitrary, hence every rank).  NOT covered: aten_unbind's SplitToSequence path for a dynamic extent. *)
From Coq Require Import ZArith List Bool.
Require Import OV.Torch.Onnx OV.Torch.Onnx2 OV.Torch.Spec OV.Torch.Spec2 OV.Torch.Aten OV.Torch.Aten2
               OV.Torch.ShapeProofs OV.Torch.WindowProofs OV.Torch.Examples2.
Import ListNotations.
Local Open Scope Z_scope.

(* windows along the axis: number (n - size) / step + 1, window w = slabs w * step .. w * step + size - 1 *)
Theorem C08_unfold_windows : forall (A : Type) (xs : list A) size step out,
  torch_unfold xs size step = Some out -> aten_unfold xs size step = Some out.
Proof. exact @unfold_correct. Qed.
Print Assumptions C08_unfold_windows.

(* output shape incl. negative dimension, size = 0, size = n, the perm; a 0-d tensor with size = 1 *)
Theorem C08_unfold_shape : forall s dimension size step out,
  shape_ok s -> (zlen s = 0 -> size = 1) ->
  torch_unfold_shape s dimension size step = Some out -> aten_unfold_shape s dimension size step = Some out.
Proof. exact unfold_shape_correct. Qed.
Print Assumptions C08_unfold_shape.

(* genuine defect: 0-d tensor with size = 0: PyTorch returns shape [0], the function Unsqueezes to [1] *)
Theorem C08_unfold_zero_dim_size0_refuted : exists s dimension size step out,
  torch_unfold_shape s dimension size step = Some out /\ exists other, aten_unfold_shape s dimension size step = Some other /\ other <> out.
Proof. exact unfold_zero_dim_size0_refuted. Qed.
Print Assumptions C08_unfold_zero_dim_size0_refuted.

(* unbind: the outputs are exactly the slabs of the (wrapped) axis, in order; rank 0 and out-of-range dims are refused by both *)
Theorem C08_unbind : forall (A : Type) r dim (xs : list A), 0 <= r -> aten_unbind r dim xs = torch_unbind r dim xs.
Proof. exact @unbind_correct. Qed.
Print Assumptions C08_unbind.

(* the repaired code (proposed_fixes/ready/C08_16_unfold_zero_dim_size_zero.diff): no side condition on a 0-d tensor's size *)
Theorem C08_unfold_shape_fixed : forall s dimension size step out,
  shape_ok s -> torch_unfold_shape s dimension size step = Some out -> aten_unfold_shape_v true s dimension size step = Some out.
Proof. exact unfold_shape_v_fixed. Qed.
Print Assumptions C08_unfold_shape_fixed.
