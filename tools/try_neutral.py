#!/venv/bin/python
"""try_neutral.py <dir with patch.diff> [Cxx ...]
Applies a BEHAVIOUR-PRESERVING patch in a scratch worktree of /repo and runs the quick check of every property anchored in a
touched file (or the listed ones) against it.  A check that raises an alarm on such a tree is a false alarm (or a tie that a
harmless rewrite breaks: reported as `no-failing-input-found`, allowed by the protocol but worth making robust).
Writes <dir>/neutral_result.json; evidence files are restored."""
import json, os, re, shutil, subprocess, sys, time
VH = os.environ.get("VERIF_HOME", "/verif")   # run the check from an isolated copy of /verif while builders edit /verif
d = sys.argv[1].rstrip("/")
props = sys.argv[2:]
patch = open(os.path.join(d, "patch.diff")).read()
touched = re.findall(r"^\+\+\+ b/(\S+)", patch, re.M)
if not props:
    for l in open("/verif/properties.jsonl"):
        p = json.loads(l)
        if any(t == a or t.startswith(a.rstrip("/") + "/") for t in touched for a in p["anchors"]["files"]):
            props.append(p["id"])
tag = re.sub(r"[^A-Za-z0-9]", "_", d)[-40:]
wt = f"/var/tmp/osv/neutral-{tag}"
subprocess.run(["git", "-C", "/repo", "worktree", "remove", "--force", wt], capture_output=True)
subprocess.run(["git", "-C", "/repo", "worktree", "add", "--detach", wt, "HEAD"], check=True, capture_output=True)
out = {"touched": touched, "props": props, "results": {}}
try:
    subprocess.run(["git", "-C", wt, "apply", os.path.join(d, "patch.diff")], check=True)
    for pid in props:
        ev = f"{VH}/evidence/{pid}.json"
        saved = open(ev).read() if os.path.exists(ev) else None
        t0 = time.time()
        try:
            p = subprocess.run([f"{VH}/check", pid, "--tier", "quick"], env=dict(os.environ, OSVERIF_REPO=wt, VERIF_SEED="0"),
                               capture_output=True, text=True, cwd=VH, timeout=2400)
            lines = [l[:400] for l in p.stdout.splitlines() if l.startswith("VIOLATION") or l.startswith("  (") or l.startswith("[")]
            out["results"][pid] = {"exit": p.returncode, "wall_s": round(time.time() - t0), "lines": lines[:8]}
            if p.returncode not in (0, 1):
                out["results"][pid]["stderr"] = p.stderr[-800:]
        except subprocess.TimeoutExpired:
            out["results"][pid] = {"exit": "timeout"}
        finally:
            if saved is not None:
                open(ev, "w").write(saved)
finally:
    subprocess.run(["git", "-C", "/repo", "worktree", "remove", "--force", wt], capture_output=True)
    shutil.rmtree(wt, ignore_errors=True)
json.dump(out, open(os.path.join(d, "neutral_result.json"), "w"), indent=1)
print(d, {k: v["exit"] for k, v in out["results"].items()})
for k, v in out["results"].items():
    if v["exit"] != 0:
        print("  ALARM", k, v.get("lines"), v.get("stderr", "")[-300:])
