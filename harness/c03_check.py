"""Shared driver code of C03 (optimize preserves what a model computes) and C04 (optimize is total, result valid,
same interface): case streams, validity gate, decision-trace correspondence, differential oracle, replay."""
from __future__ import annotations

import base64
import collections
import os
import re

import numpy as np
import onnx

from harness import c03_gen as G
from harness import c03_run as R
from harness import c03_trace as T
from harness import graphlit


# ------------------------------------------------------------------------------------------- streams

def dag_stream(rng, n, overridable_every=0, start=0):
    profiles = sorted(G.PROFILES)
    i = start
    made = 0
    guard = 0
    while made < n and guard < 5 * n + 20:
        guard += 1
        i += 1
        prof = profiles[i % len(profiles)]
        ov = bool(overridable_every) and (i % overridable_every == 0)
        try:
            if i % 8 == 5:
                # an old-opset model and its modern twin, in either order: the result must not depend on what the process
                # optimized before (versioned reference implementations)
                first = rng.random() < 0.5
                primed = getattr(G, "_legacy_primed", False)
                if not primed:
                    # the first pair of a process: the modern model first, every operator kind in both
                    first = True
                    G._legacy_primed = True
                pair = [G.gen_legacy(rng, i, modern=first, all_kinds=not primed), G.gen_legacy(rng, i, modern=not first, all_kinds=not primed)]
                made += 1
                yield pair[0]
                c = pair[1]
                c.history = [pair[0].model]      # optimized earlier in this process (for the replay)
            else:
                c = G.gen_dag(rng, i, prof, overridable=ov, value_info=rng.choice(["all", "some", "none"]))
        except Exception as e:  # a generator bug must not look like a finding
            yield ("generator-error", f"{type(e).__name__}: {e}")
            continue
        if c is None:
            continue
        made += 1
        yield c


def alias_stream(rng, n=None):
    """Overridable defaults (initializers that are graph inputs) reaching a foldable node through a value whose symbolic
    value is the graph input: every variant of G.ALIAS_VARIANTS at every seed (n: at least that many cases)."""
    n = max(n or 0, len(G.ALIAS_VARIANTS))
    for i in range(n):
        try:
            yield G.gen_overridable_alias(rng, i)
        except Exception as e:  # a generator bug must not look like a finding
            yield ("generator-error", f"{type(e).__name__}: {e}")


def pass_family_stream(rng, n=None):
    """models aimed at the onnx_ir stages (CSE / DCE / lift / dedup): every variant of G.PASS_VARIANTS at every seed"""
    n = max(n or 0, len(G.PASS_VARIANTS))
    for i in range(n):
        try:
            yield G.gen_pass_case(rng, i)
        except Exception as e:  # a generator bug must not look like a finding
            yield ("generator-error", f"{type(e).__name__}: {e}")


def fold_family_stream(rng):
    """the pass-family models aimed at the FOLDER's partial evaluators (Dropout with a training_mode / ratio that is only known at run
    time): fed to the decision-trace correspondence, so that the evaluator's decision constant-False / unknown / True is compared with
    Opt/Fold.v pe_dropout on every run"""
    for i, v in enumerate(x for x in G.PASS_VARIANTS if x.startswith("dropout-")):
        for j in range(2):
            try:
                yield G.gen_pass_case(rng, i * 2 + j, v)
            except Exception as e:
                yield ("generator-error", f"{type(e).__name__}: {e}")


def corpus_stream(rng, pid):
    """Minimised past failures (corpus/<pid>/*.onnx), run before the fresh cases.  Feeds are derived from the declared
    input types; initializers that are graph inputs are the overridable ones."""
    import glob
    from onnx import numpy_helper
    from harness import common
    np2 = {v: k for k, v in G.NP2ONNX.items()}
    for path in sorted(glob.glob(os.path.join(common.VERIF, "corpus", pid, "*.onnx"))):
        m = onnx.load(path)
        inits = {i.name: numpy_helper.to_array(i) for i in m.graph.initializer}
        feeds = [{}, {}, {}]
        over = []
        ok = True
        for vi in m.graph.input:
            if vi.name in inits:
                a = inits[vi.name]
                kind = "bool" if a.dtype == np.bool_ else ("shape" if a.dtype == np.int64 else "float")
                over.append((vi.name, a, kind))
                continue
            tt = vi.type.tensor_type
            dt = np2.get(tt.elem_type)
            if dt is None or dt == G.STR:
                ok = False
                break
            shp = tuple((d.dim_value if d.HasField("dim_value") else 2) for d in tt.shape.dim)
            for k in range(3):
                if k == 0:
                    a = np.zeros(shp, dtype=dt)
                elif k == 1:
                    a = np.ones(shp, dtype=dt)
                else:
                    a = G.nice(rng, dt, shp)
                feeds[k][vi.name] = np.asarray(a, dtype=dt).reshape(shp)
        if not ok:
            continue
        name = os.path.splitext(os.path.basename(path))[0]
        yield G.Case(m, feeds, ["corpus:" + name], [False] * len(m.graph.output), "corpus", "corpus-" + name, overridable=over)


def lifted_stream(rng, n, thorough=False):
    dirs = G.node_test_dirs()
    if not thorough:
        dirs = rng.sample(dirs, min(n, len(dirs)))
        dirs.sort()
    return G.lifted_cases(rng, dirs)


def validity(case, need_deterministic=False):
    """Run the original first.  -> (base, reason): base = {'ort': outs | None, 'ref': outs | None} when the model is
    checker-valid and at least one runtime executes it on every feed."""
    try:
        onnx.checker.check_model(case.model, full_check=True)
    except Exception as e:
        return None, "checker: " + str(e).split("\n")[0][:80]
    base = {}
    errs = []
    for name, fn in R.RUNTIMES:
        st, out = fn(case.model, case.feeds)
        base[name] = out if st == "ok" else None
        if st != "ok":
            errs.append(f"{name}: {out[:80]}")
    if base["ort"] is None and base["ref"] is None:
        return None, "no runtime executes the model (" + "; ".join(errs) + ")"
    if any(o.domain == "ai.onnx.preview" for o in case.model.opset_import):
        return None, "preview-domain operator"
    if base["ort"] is not None and base["ref"] is not None:
        # folding evaluates with onnx.reference: where the two runtimes already disagree on the ORIGINAL model (kernel
        # differences, random operators with a seed) the model says nothing about the optimizer
        for a, b in zip(base["ort"], base["ref"]):
            if R.compare_outputs(a, b, case.exact, loose=True) is not None:
                return None, "runtimes disagree on the original model"
    if need_deterministic:
        for name, fn in R.RUNTIMES:
            if base[name] is not None:
                st, out = fn(case.model, case.feeds[:1])
                if st != "ok" or R.compare_outputs(base[name][0], out[0], None) is not None:
                    return None, "model is not deterministic (random operator)"
    case.expected_ok = {}
    if case.expected is not None:
        # recorded outputs of the ONNX node test: an extra oracle for the runtimes that reproduce them on the original
        for name in ("ort", "ref"):
            if base[name] is not None:
                case.expected_ok[name] = all(R.compare_outputs(list(case.expected), list(o), None, loose=True) is None for o in base[name])
    return base, None


# ------------------------------------------------------------------------------------------- classification

def _ops_deep(g, acc):
    for n in g.node:
        acc.append(n.op_type)
        for a in n.attribute:
            if a.type == onnx.AttributeProto.GRAPH:
                _ops_deep(a.g, acc)
    return acc


def culprit(orig, opt):
    a, b = collections.Counter(_ops_deep(orig.graph, [])), collections.Counter(_ops_deep(opt.graph, []))
    for f in orig.functions:
        a[f.name] += 0
    removed = sorted(k for k in a if a[k] > b.get(k, 0))
    added = sorted(k for k in b if b[k] > a.get(k, 0) and k not in ("Constant",))
    return ",".join(removed[:4]) + "->" + ",".join(added[:4])


def shadowing(model):
    """names defined in a subgraph that are also defined in an enclosing graph (illegal in ONNX)"""
    res = []

    def walk(g, outer):
        local = {i.name for i in g.input} | {i.name for i in g.initializer} | {o for n in g.node for o in n.output if o}
        for n in g.node:
            for a in n.attribute:
                if a.type == onnx.AttributeProto.GRAPH:
                    inner = {i.name for i in a.g.input} | {i.name for i in a.g.initializer} | {o for nn in a.g.node for o in nn.output if o}
                    res.extend(sorted(inner & (outer | local)))
                    walk(a.g, outer | local)
    walk(model.graph, set())
    return res


def displaced_initializer(model):
    """node inputs (nested graphs included) that nothing defines although a value with the same base name (without a
    _<n> suffix) is an initializer: the signature of an initializer displaced by a second registration under its name"""
    defined = set()
    inits = set()

    def collect(g):
        defined.update(i.name for i in g.input)
        defined.update(i.name for i in g.initializer)
        inits.update(i.name for i in g.initializer)
        for n in g.node:
            defined.update(n.output)
            for a in n.attribute:
                if a.type == onnx.AttributeProto.GRAPH:
                    collect(a.g)
    collect(model.graph)
    res = []

    def uses(g):
        for n in g.node:
            for i in n.input:
                if i and i not in defined and re.sub(r"_\d+$", "", i) in inits:
                    res.append(i)
            for a in n.attribute:
                if a.type == onnx.AttributeProto.GRAPH:
                    uses(a.g)
    uses(model.graph)
    return res


def known_structural_class(orig, opt):
    """defects of the rewriter's node-replacement machinery (C07) as they surface in a whole-pipeline result"""
    try:
        if displaced_initializer(opt) and not displaced_initializer(orig):
            return "rewrite:initializer-name-clash:displaced-initializer"
        if shadowing(opt) and not shadowing(orig):
            return "rewrite:fresh-name-shadows-enclosing-graph-value"
    except Exception:
        pass
    return None


def diff_kind(msg):
    if msg is None:
        return None
    if msg.startswith("number of outputs"):
        return "output-count"
    if "dtype" in msg:
        return "dtype"
    if "shape" in msg:
        return "runtime-shape"
    if "NaN" in msg or "infinit" in msg:
        return "nan-inf"
    if "integer" in msg or "string" in msg:
        return "exact-values"
    return "float-values"


def prune_to_output(model, k):
    """Keep only graph output k and the top-level nodes it needs (a cheap shrink for the key / replay)."""
    m = onnx.ModelProto()
    m.CopyFrom(model)
    keep_out = m.graph.output[k]
    outs = [keep_out]
    needed = {keep_out.name}
    nodes = list(m.graph.node)
    kept = []

    def uses(n, acc):
        acc.update(i for i in n.input if i)
        for a in n.attribute:
            if a.type == onnx.AttributeProto.GRAPH:
                for sn in a.g.node:
                    uses(sn, acc)
                acc.update(o.name for o in a.g.output)
        return acc

    for n in reversed(nodes):
        if any(o in needed for o in n.output):
            kept.append(n)
            uses(n, needed)
    kept.reverse()
    del m.graph.node[:]
    m.graph.node.extend(kept)
    del m.graph.output[:]
    m.graph.output.extend(outs)
    try:
        onnx.checker.check_model(m)
    except Exception:
        return None
    return m


def replay_doc(case, entry, opts, as_ir, extra=None):
    d = {"ident": case.ident, "kind": case.kind, "features": case.features, "entry": entry, "opts": list(opts) if opts else None,
         "as_ir": as_ir, "model_b64": R.model_b64(case.model), "feeds": R.feeds_json(case.feeds)}
    if getattr(case, "history", None):
        d["history_models_b64"] = [R.model_b64(m) for m in case.history]
    if extra:
        d.update(extra)
    return d


def feeds_from_json(js):
    res = []
    for fd in js:
        res.append({k: np.array(v["data"], dtype=(object if v["dtype"] == "object" else v["dtype"])).reshape(v["shape"]) for k, v in fd.items()})
    return res


# ------------------------------------------------------------------------------------------- equivalent variants
# A failing case is attributed to a KNOWN defect class when a variant of the model that is equivalent by the ONNX
# specification (and observed to be: same outputs on the runtimes) and merely avoids the defect no longer fails.

def _nodes_deep(g):
    for n in g.node:
        yield n
        for a in n.attribute:
            if a.type == onnx.AttributeProto.GRAPH:
                yield from _nodes_deep(a.g)
            elif a.type == onnx.AttributeProto.GRAPHS:
                for sg in a.graphs:
                    yield from _nodes_deep(sg)


def variant_keepdims(model):
    """SplitToSequence with a `split` input ignores keepdims (ONNX operator specification): keepdims=0 -> 1."""
    m = onnx.ModelProto()
    m.CopyFrom(model)
    changed = 0
    scopes = [_nodes_deep(m.graph)] + [iter(f.node) for f in m.functions]
    for it in scopes:
        for n in it:
            if n.op_type == "SplitToSequence" and n.domain in ("", "ai.onnx") and len(n.input) >= 2 and n.input[1]:
                for a in n.attribute:
                    if a.name == "keepdims" and not a.ref_attr_name and a.i == 0:
                        a.i = 1
                        changed += 1
    return m if changed else None


def specialize_ref_attrs(model, skip=()):
    """Reference attributes of the bodies of functions that are called exactly once (from the main graph) replaced by
    the attribute values of that call.  -> (model', set of 'Op.attr' replaced)"""
    m = onnx.ModelProto()
    m.CopyFrom(model)
    calls = {}
    for n in _nodes_deep(m.graph):
        calls.setdefault((n.domain, n.op_type), []).append(n)
    for f in m.functions:
        for n in f.node:
            calls.setdefault((n.domain, n.op_type), []).append(None)      # called from a function: not specialised
    changed = set()
    for f in m.functions:
        cs = calls.get((f.domain, f.name), [])
        if len(cs) != 1 or cs[0] is None:
            continue
        given = {a.name: a for a in cs[0].attribute}
        for n in f.node:
            for a in n.attribute:
                tag = f"{n.op_type}.{a.name}"
                if a.ref_attr_name and a.ref_attr_name in given and tag not in skip:
                    new = onnx.AttributeProto()
                    new.CopyFrom(given[a.ref_attr_name])
                    new.name = a.name
                    a.CopyFrom(new)
                    changed.add(tag)
    return m, changed


def _same_as_base(model, case, base):
    for name, fn in R.RUNTIMES:
        if base[name] is None:
            continue
        st, out = fn(model, case.feeds)
        if st != "ok" or any(R.compare_outputs(w, g, case.exact) is not None for w, g in zip(base[name], out)):
            return False
    return True


def known_class_by_variant(case, base, entry, opts, as_ir, failing):
    """-> list of keys of known defect classes that explain the failure (empty: none does)."""
    def passes(variant):
        try:
            return not failing(R.apply_entry(entry, variant, opts, as_ir))
        except Exception:
            return False
    try:
        v = variant_keepdims(case.model)
        if v is not None and _same_as_base(v, case, base) and passes(v):
            return ["C03:fold:split-to-sequence:keepdims-honoured-although-split-is-given"]
        v, pairs = specialize_ref_attrs(case.model)
        if pairs and _same_as_base(v, case, base) and passes(v):
            needed = [p for p in sorted(pairs) if not passes(specialize_ref_attrs(case.model, skip=(p,))[0])]
            return [f"C03:fold:reference-attribute-read-as-absent:{p}" for p in (needed or sorted(pairs))]
    except Exception:
        pass
    return []


# ------------------------------------------------------------------------------------------- differential oracle (C03)

def run_plan(rng, tier, case):
    """(entry, opts, as_ir) tuples tried on one case."""
    plan = [("optimize", None, False)]
    n_opt = 1 if tier == "quick" else 4
    for t in R.option_tuples(rng, n_opt + 1)[1:]:
        plan.append(("optimize", t, rng.random() < 0.5))
    plan.append(("optimize_ir", R.option_tuples(rng, 2)[1], True))
    plan.append(("fold_constants", R.option_tuples(rng, 2)[1], rng.random() < 0.5))
    plan.append(("rewrite", None, rng.random() < 0.5))
    if tier != "quick" or rng.random() < 0.3:
        plan.append(("remove_unused_nodes", None, rng.random() < 0.5))
    return plan


def attribute_stage(case, entry, opts, as_ir, fails):
    """Which part of the pipeline reproduces the failure: fold / rewrite / dce / pipeline."""
    if entry == "fold_constants":
        return "fold"
    if entry == "rewrite":
        return "rewrite"
    if entry == "remove_unused_nodes":
        return "dce"
    for stage, e in (("rewrite", "rewrite"), ("fold", "fold_constants")):
        try:
            m2 = R.apply_entry(e, case.model, opts if e == "fold_constants" else None, as_ir)
        except Exception:
            continue
        if fails(m2):
            return stage
    return "pipeline"


def differential(ctx, case, base, plan, stats):
    """C03: every entry point / option tuple of the plan must leave the outputs of the model unchanged."""
    for entry, opts, as_ir in plan:
        stats["runs"] += 1
        try:
            m2 = R.apply_entry(entry, case.model, opts, as_ir)
        except Exception as e:  # totality is C04's business; counted here
            stats["entry-raised(C04)"] += 1
            continue

        def failing(mopt, want_detail=False):
            for name, fn in R.RUNTIMES:
                if base[name] is None:
                    continue
                st, out = fn(mopt, case.feeds)
                if st != "ok":
                    return (name, "optimized-model-fails", out, None) if want_detail else True
                for k, (w, g) in enumerate(zip(base[name], out)):
                    d = R.compare_outputs(w, g, case.exact, loose=case.kind.startswith("lifted"))
                    if d is None and getattr(case, "expected_ok", {}).get(name):
                        d = R.compare_outputs(list(case.expected), list(g), None, loose=True)
                        if d is not None:
                            d = "recorded outputs of the node test: " + d
                    if d is not None:
                        return (name, diff_kind(d), d, k) if want_detail else True
            return None if want_detail else False

        f = failing(m2, True)
        if f is None:
            continue
        rt, kind, detail, feed_k = f
        if rt == "ort" and kind == "optimized-model-fails" and "ShapeInferenceError" in str(detail) and base["ref"] is not None:
            # onnxruntime refuses to LOAD the optimized model (its static shape inference is stricter than its kernels: e.g. an If
            # that is inlined exposes a [1]-shaped value where Range wants a scalar) while onnx.reference runs it with the same
            # outputs as the original: counted, not flagged
            st_r, out_r = R.run_ref(m2, case.feeds)
            if st_r == "ok" and all(R.compare_outputs(w, g, case.exact, loose=case.kind.startswith("lifted")) is None
                                    for w, g in zip(base["ref"], out_r)):
                stats["ort-load-time-shape-inference-rejects-optimized(reference agrees)"] += 1
                continue
        stage = attribute_stage(case, entry, opts, as_ir, failing)
        structural = known_structural_class(case.model, m2) if kind == "optimized-model-fails" else None
        by_variant = known_class_by_variant(case, base, entry, opts, as_ir, failing) if structural is None else []
        if by_variant:
            for key in by_variant:
                ctx.violation(key, f"{entry}{'(ir.Model)' if as_ir else ''} opts={opts}: {rt} outputs of the optimized model differ from the original: {detail}",
                              replay_doc(case, entry, opts, as_ir, {"runtime": rt, "detail": str(detail)[:300], "stage": stage}))
            stats["violations"] += 1
            continue
        if "Required inputs" in str(detail) and case.overridable:
            key = "C03:initializer-input:default-removed"
        elif structural is not None:
            key = "C03:" + structural
        elif case.kind.startswith("lifted"):
            # the same node test is lifted in several ways: key on the operator under test
            op = next((f[3:] for f in case.features if f.startswith("op:")), "?")
            key = f"C03:{stage}:node-test-op:{op}:{kind}"
        else:
            # shrink to the first differing output to name the culprit ops
            small = case.model
            mo = re.match(r"output (\d+)", str(detail))
            if mo and len(case.model.graph.output) > 1:
                p = prune_to_output(case.model, int(mo.group(1)))
                if p is not None:
                    small = p
            try:
                e2 = {"fold": "fold_constants", "rewrite": "rewrite", "dce": "remove_unused_nodes"}.get(stage, entry)
                mo2 = R.apply_entry(e2, small, opts if e2 in ("fold_constants", "optimize", "optimize_ir") else None, as_ir)
                cul = culprit(small, mo2)
            except Exception:
                cul = culprit(case.model, m2)
            key = f"C03:{stage}:{cul}:{kind}"
        ctx.violation(key, f"{entry}{'(ir.Model)' if as_ir else ''} opts={opts}: {rt} outputs of the optimized model differ from the original: {detail}",
                      replay_doc(case, entry, opts, as_ir, {"runtime": rt, "detail": str(detail)[:300], "stage": stage}))
        stats["violations"] += 1


# ------------------------------------------------------------------------------------------- trace correspondence

LIMITS = [(8192, 512 * 512), (0, 512 * 512), (8192, 0), (4, 4), (0, 0)]


def trace_stream(ctx, rng, cases, pid, batch=48):
    """Opt/Fold.v against the real FoldConstantsPass on the same models: per-node decisions and the resulting graph.
    A disagreement is first tested against the property (original vs folded model on the runtimes)."""
    stats = collections.Counter()
    pend, meta = [], []
    for c in cases:
        if not isinstance(c, G.Case):
            stats["generator-error"] += 1
            continue
        lim = LIMITS[len(meta) % len(LIMITS)] if rng.random() < 0.7 else LIMITS[0]
        try:
            onnx.checker.check_model(c.model, full_check=True)
        except Exception:
            stats["discarded:checker"] += 1
            continue
        try:
            d, info = T.observe(c.model, *lim)
        except T.Unmodelled as e:
            stats["not-modelled:" + str(e)[:40]] += 1
            continue
        except Exception as e:
            # the real pass raised something the wrappers did not expect: C04 reports exceptions of the pass itself
            stats["pass-raised:" + type(e).__name__] += 1
            continue
        pend.append(d)
        meta.append((c, lim, info))
    verdicts = []
    for i in range(0, len(pend), batch):
        ok, vals, raw = ctx.coq_eval(T.REQUIRES, T.batch_text(pend[i:i + batch]), timeout=1200)
        if not ok:
            ctx.tie_broken("correspondence", "fold-trace:model-evaluation", raw[-1500:])
            return stats
        vs = T.parse_verdicts(vals[0])
        if len(vs) != len(pend[i:i + batch]):
            ctx.tie_broken("correspondence", "fold-trace:verdict-parse", vals[0][:500])
            return stats
        verdicts += vs
    names = {0: "agree", 10: "agree(outside-theorem-side-conditions)", 5: "not-modelled:evaluator", 15: "not-modelled:evaluator"}
    for (c, lim, info), (v, idx) in zip(meta, verdicts):
        kinds = collections.Counter(info["kinds"])
        ctx.case(("trace", tuple(sorted(set(info["kinds"]))), info["raised"], lim, v in (10, 15)))
        stats["nodes-visited"] += info["visited"]
        stats["decisions:keep"] += kinds[0]
        stats["decisions:fold-to-initializer"] += kinds[1]
        stats["decisions:replace-by-nodes"] += kinds[2]
        stats["decisions:inline-if"] += kinds[3]
        stats["pass-raised-RuntimeError"] += int(info["raised"])
        if v in names:
            stats[names[v]] += 1
            continue
        # disagreement: first the property itself on this input
        what = {1: f"decision of visited node #{idx} differs", 2: "resulting graphs differ", 3: "model / pass disagree on raising",
                4: "model ran out of fuel", 11: f"decision of visited node #{idx} differs", 12: "resulting graphs differ",
                13: "model / pass disagree on raising", 14: "model ran out of fuel"}.get(v, f"verdict {v}")
        stats["disagree"] += 1
        found = False
        base, reason = validity(c)
        if base is not None:
            try:
                m2 = R.apply_entry("fold_constants", c.model, (1, False, True, True, lim[0], lim[1]), False)
                for name, fn in R.RUNTIMES:
                    if base[name] is None:
                        continue
                    st, out = fn(m2, c.feeds)
                    bad = st != "ok" or any(R.compare_outputs(w, g, c.exact) is not None for w, g in zip(base[name], out))
                    if bad and st != "ok" and "Required inputs" in str(out) and c.overridable:
                        ctx.violation(f"{pid}:initializer-input:default-removed", f"fold_constants drops the default of an initializer-input; {what}",
                                      replay_doc(c, "fold_constants", (1, False, True, True, lim[0], lim[1]), False))
                        found = True
                        break
                    if bad:
                        ctx.violation(f"{pid}:fold:{culprit(c.model, m2)}:found-by-model-disagreement",
                                      f"fold_constants changes the outputs of the model ({name}); {what}",
                                      replay_doc(c, "fold_constants", (1, False, True, True, lim[0], lim[1]), False))
                        found = True
                        break
            except Exception as e:
                t, site, msg = R.root_cause(e)
                ctx.violation(f"C04:raises:{t}:{site}", f"fold_constants raised {t}: {msg}", replay_doc(c, "fold_constants", None, False))
                found = True
        if not found:
            ctx.tie_broken("correspondence", f"fold-trace:{c.ident}", f"{what}; limits={lim}; features={c.features}")
    return stats


# ------------------------------------------------------------------------------------------- replay

def replay(doc):
    r = doc["replay"]
    if "model_b64" not in r:
        print(doc)
        return 0
    m = onnx.ModelProto()
    m.ParseFromString(base64.b64decode(r["model_b64"]))
    feeds = feeds_from_json(r["feeds"])
    print("property", doc["property"], "key", doc["key"])
    print(onnx.printer.to_text(m)[:4000])
    opts = tuple(r["opts"]) if r.get("opts") else None
    for hb in r.get("history_models_b64", []):
        h = onnx.ModelProto()
        h.ParseFromString(base64.b64decode(hb))
        try:
            R.apply_entry("optimize", h)          # what the process had optimized before
        except Exception:
            pass
    try:
        m2 = R.apply_entry(r["entry"], m, opts, r.get("as_ir", False))
    except Exception as e:
        print("entry raised:", R.root_cause(e))
        return 1
    print("--- after", r["entry"], opts)
    print(onnx.printer.to_text(m2)[:4000])
    rc = 0
    for name, fn in R.RUNTIMES:
        s1, o1 = fn(m, feeds)
        s2, o2 = fn(m2, feeds)
        print(name, "original:", s1, "optimized:", s2)
        if s1 == "ok" and s2 == "ok":
            for a, b in zip(o1, o2):
                d = R.compare_outputs(a, b, None)
                if d:
                    print("  differs:", d)
                    rc = 1
        elif s1 == "ok":
            print("  optimized fails:", o2)
            rc = 1
    return rc
