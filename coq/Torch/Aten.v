(* C08 -- models of the trace-time Python of onnxscript/function_libs/torch_lib/ops/core.py:
   for each covered aten_* function (i) the composition of ONNX operators it emits, evaluated with the
   operator semantics of Onnx.v (`aten_f`), and (ii) the skeleton of the emitted graph (`skel_f`):
   the non-Constant nodes in order, each with its integer attributes (in attribute-name order) followed
   by its integer constant operands.  Both follow what the code DOES (pinned commit), including where
   that differs from PyTorch.  No proofs in this file. *)
From Coq Require Import ZArith List Bool String.
Require Import OV.Torch.Onnx.
Import ListNotations.
Local Open Scope string_scope.
Local Open Scope Z_scope.

Definition skel := list (string * list (list Z)).
Definition one (z : Z) : list Z := [z].

(* ================================================================== view-like: shapes *)

(* aten_flatten (core.py) *)
Definition flatten_fast1 (dim start end_ : Z) : bool := (start =? 1) && ((end_ =? -1) || (end_ =? dim - 1)).
Definition flatten_fast0 (dim start end_ : Z) : bool := (start =? 0) && ((end_ =? -2) || (end_ =? dim - 2)).
Definition aten_flatten (s : list Z) (start end_ : Z) : option (list Z) :=
  let dim := zlen s in
  if dim =? 1 then Some s
  else if flatten_fast1 dim start end_ then flatten_axis s start
  else if flatten_fast0 dim start end_ then flatten_axis s (end_ + 1)
  else
    let e := if end_ <? 0 then dim + end_ else end_ in
    obind (slice_axis s 0 start 1) (fun head =>
    obind (if e <? dim - 1 then slice_axis s (e + 1) dim 1 else Some []) (fun tail =>
      reshape_shape s (head ++ [-1] ++ tail)%list false)).
Definition skel_flatten (s : list Z) (start end_ : Z) : skel :=
  let dim := zlen s in
  if dim =? 1 then [("Identity", [])]
  else if flatten_fast1 dim start end_ then [("Flatten", [[start]])]
  else if flatten_fast0 dim start end_ then [("Flatten", [[end_ + 1]])]
  else
    let e := if end_ <? 0 then dim + end_ else end_ in
    ([("Shape", [[0]]); ("Slice", [[0]; [start]; [0]])]
     ++ (if e <? dim - 1 then [("Slice", [[e + 1]; [dim]; [0]])] else [])
     ++ [("Concat", [[0]; [-1]]); ("Reshape", [[0]])])%list.

(* aten_unflatten *)
Definition aten_unflatten (s : list Z) (dim : Z) (sizes : list Z) : option (list Z) :=
  let r := zlen s in
  let d := if dim <? 0 then r + dim else dim in
  obind (slice_axis s 0 d 1) (fun head =>
  obind (slice_axis s (d + 1) INT64_MAX 1) (fun tail =>
    let tgt := if d =? 0 then (sizes ++ tail)%list
               else if d =? r - 1 then (head ++ sizes)%list
               else (head ++ sizes ++ tail)%list in
    reshape_shape s tgt true)).
Definition skel_unflatten (s : list Z) (dim : Z) (sizes : list Z) : skel :=
  let r := zlen s in
  let d := if dim <? 0 then r + dim else dim in
  ([("Shape", [[0]]); ("Reshape", [[0]; [d]; [1]]); ("Slice", [[0]]);
    ("Reshape", [[0]; [d + 1]; [1]]); ("Slice", [[INT64_MAX]])]
   ++ map (fun sz => ("Reshape", [[0]; [sz]; [1]])) sizes
   ++ [("Concat", [[0]]); ("Reshape", [[1]])])%list.

(* aten_squeeze_dim / aten_squeeze / aten_unsqueeze *)
Definition aten_squeeze_dim (s : list Z) (dim : Z) : option (list Z) :=
  if zlen s =? 0 then Some s else squeeze_axes s [dim].
Definition skel_squeeze_dim (s : list Z) (dim : Z) : skel :=
  if zlen s =? 0 then [("Identity", [])] else [("Squeeze", [[dim]])].
Definition aten_squeeze (s : list Z) : option (list Z) := Some (squeeze_all s).
Definition skel_squeeze : skel := [("Squeeze", [])].
Definition aten_unsqueeze (s : list Z) (dim : Z) : option (list Z) := unsqueeze_axes s [dim].
Definition skel_unsqueeze (dim : Z) : skel := [("Unsqueeze", [[dim]])].

(* aten_permute: negative entries are shifted by len(dims) *)
Definition permute_perm (dims : list Z) : list Z := map (fun a => if a <? 0 then a + zlen dims else a) dims.
Definition aten_permute (s dims : list Z) : option (list Z) :=
  match dims with
  | [] => transpose_shape s None
  | _ => transpose_shape s (Some (permute_perm dims))
  end.
Definition skel_permute (dims : list Z) : skel :=
  match dims with [] => [("Transpose", [])] | _ => [("Transpose", [permute_perm dims])] end.

(* aten_transpose: python list indexing (negative allowed) on list(range(rank)), then a tuple swap *)
Definition transpose_perm (r d0 d1 : Z) : option (list Z) :=
  match norm_axis r d0, norm_axis r d1 with
  | Some a, Some b => Some (map (fun i => if i =? a then b else if i =? b then a else i) (iota r))
  | _, _ => None                                                   (* IndexError while tracing *)
  end.
Definition aten_transpose (s : list Z) (d0 d1 : Z) : option (list Z) :=
  if zlen s =? 0 then Some s
  else obind (transpose_perm (zlen s) d0 d1) (fun p => transpose_shape s (Some p)).
Definition skel_transpose (s : list Z) (d0 d1 : Z) : skel :=
  if zlen s =? 0 then []
  else match transpose_perm (zlen s) d0 d1 with Some p => [("Transpose", [p])] | None => [] end.

(* aten_t *)
Definition aten_t (s : list Z) : option (list Z) :=
  if zlen s =? 2 then transpose_shape s (Some [1; 0]) else Some s.
Definition skel_t (s : list Z) : skel := if zlen s =? 2 then [("Transpose", [[1; 0]])] else [].

(* aten_expand: -1 is replaced by 1, then Expand (bidirectional broadcast) *)
Definition expand_size (size : list Z) : list Z := map (fun t => if t =? -1 then 1 else t) size.
Definition aten_expand (s size : list Z) : option (list Z) := expand_shape s (expand_size size).
Definition skel_dims (dims : list Z) (then_ : string) (attrs : list (list Z)) : skel :=   (* common.merge_dims + consumer *)
  match dims with
  | [] => [(then_, (attrs ++ [[]])%list)]
  | _ => [("Concat", ([0] :: map one dims)); (then_, attrs)]
  end.
Definition skel_expand (size : list Z) : skel := skel_dims (expand_size size) "Expand" [].

(* aten_view (allowzero=1); aten_reshape and aten_view_copy (allowzero=0) *)
Definition aten_view (s size : list Z) : option (list Z) := reshape_shape s size true.
Definition skel_view (size : list Z) : skel := skel_dims size "Reshape" [[1]].
Definition aten_reshape (s size : list Z) : option (list Z) := reshape_shape s size false.
Definition skel_reshape (size : list Z) : skel := skel_dims size "Reshape" [[0]].

(* aten_repeat / aten_tile *)
Definition ones (k : Z) : list Z := repeat 1 (Z.to_nat k).
Definition aten_repeat (s reps : list Z) : option (list Z) :=
  match reps with
  | [] => Some s
  | _ => obind (expand_shape s (ones (zlen reps))) (fun s' => tile_shape s' reps)
  end.
Definition skel_repeat (reps : list Z) : skel :=
  match reps with [] => [] | _ => [("Expand", [ones (zlen reps)]); ("Tile", [reps])] end.
Definition aten_tile (s dims : list Z) : option (list Z) :=
  let diff := zlen s - zlen dims in
  if 0 <? diff then tile_shape s (ones diff ++ dims)%list
  else if diff <? 0 then obind (reshape_shape s (ones (- diff) ++ s)%list true) (fun s' => tile_shape s' dims)
  else tile_shape s dims.
Definition skel_tile (s dims : list Z) : skel :=
  let diff := zlen s - zlen dims in
  if 0 <? diff then [("Tile", [(ones diff ++ dims)%list])]
  else if diff <? 0 then [("Shape", [[0]]); ("Concat", [[0]; ones (- diff)]); ("Reshape", [[1]]); ("Tile", [dims])]
  else [("Tile", [dims])].

(* aten_cat: tensors of shape (0,) are filtered to decide between assert / Identity / Concat,
   but Concat receives ALL tensors *)
Definition legacy_empty (s : list Z) : bool := match s with [0] => true | _ => false end.
Definition aten_cat (ss : list (list Z)) (dim : Z) : option (list Z) :=
  match filter (fun s => negb (legacy_empty s)) ss with
  | [] => None                                                     (* assert fails while tracing *)
  | [s] => Some s
  | _ => concat_shapes ss dim
  end.
Definition skel_cat (ss : list (list Z)) (dim : Z) : skel :=
  match filter (fun s => negb (legacy_empty s)) ss with
  | [] => []
  | [s] => [("Identity", [])]
  | _ => [("Concat", [[dim]])]
  end.
(* repaired (proposed_fixes/ready/C08_15): Concat receives the filtered tensors; when every tensor is a legacy empty one the first is returned *)
Definition aten_cat_fixed (ss : list (list Z)) (dim : Z) : option (list Z) :=
  match filter (fun s => negb (legacy_empty s)) ss with
  | [] => match ss with [] => None | _ => Some [0] end
  | [s] => Some s
  | fs => concat_shapes fs dim
  end.
Definition skel_cat_fixed (ss : list (list Z)) (dim : Z) : skel :=
  match filter (fun s => negb (legacy_empty s)) ss with
  | [] => match ss with [] => [] | _ => [("Identity", [])] end
  | [s] => [("Identity", [])]
  | _ => [("Concat", [[dim]])]
  end.
(* aten_stack: Unsqueeze every tensor at dim, Concat at dim *)
Definition aten_stack (ss : list (list Z)) (dim : Z) : option (list Z) :=
  obind (omap_all (fun s => unsqueeze_axes s [dim]) ss) (fun us => concat_shapes us dim).
Definition skel_stack (ss : list (list Z)) (dim : Z) : skel :=
  (map (fun _ => ("Unsqueeze", [[dim]])) ss ++ [("Concat", [[dim]])])%list.

(* reductions: aten_sum_dim_IntList, aten_amax/aten_amin (script functions: one call node), aten_mean_dim *)
Definition aten_sum_dim (s : list Z) (dims : option (list Z)) (keepdim : bool) : option (list Z) :=
  if zlen s =? 0 then Some s else reduce_shape s dims keepdim.
Definition kd (b : bool) : list Z := [if b then 1 else 0].
Definition skel_sum_dim (s : list Z) (dims : option (list Z)) (keepdim : bool) : skel :=
  if zlen s =? 0 then [("Identity", [])]
  else match dims with
       | None => [("ReduceSum", [kd keepdim; [0]])]
       | Some ds => [("ReduceSum", [kd keepdim; [0]; ds])]
       end.
(* aten_amax / aten_amin.  As a script function (the code as it is) the trace holds one call node of the function, whose
   body is ReduceMax(self, dim, keepdims); as a trace_only function (traced = true) it is ReduceMax(self, keepdims) when
   dim is None, else ReduceMax(self, dim, keepdims).  `dim` arrives as a tensor, so it is no constant operand. *)
Definition aten_amax (s : list Z) (dims : option (list Z)) (keepdim : bool) : option (list Z) := reduce_shape s dims keepdim.
Definition skel_amax (traced : bool) (keepdim : bool) : skel :=
  if traced then [("ReduceMax", [kd keepdim; [0]])]
  else [("pkg.onnxscript.torch_lib::aten_amax", [kd keepdim])].
Definition aten_mean_dim (s dims : list Z) (keepdim : bool) : option (list Z) :=
  if zlen s =? 0 then Some s else reduce_shape s (Some dims) keepdim.
Definition skel_mean_dim (s : list Z) (keepdim : bool) : skel :=
  if zlen s =? 0 then [] else [("Reshape", [[0]; [-1]]); ("ReduceMean", [kd keepdim; [0]])].

(* ================================================================== along one axis: slabs
   r = rank of self, dim = the argument as given; the result is (normalised axis, slabs). *)
Section Axis.
Context {A : Type}.

(* aten_select: Gather with a scalar index *)
Definition aten_select (r dim : Z) (xs : list A) (index : Z) : option (Z * A) :=
  obind (norm_axis r dim) (fun a => obind (gather1 xs index) (fun x => Some (a, x))).

(* aten_slice *)
Definition aten_slice (r dim : Z) (xs : list A) (start end_ step : option Z) : option (Z * list A) :=
  obind (norm_axis r dim) (fun a =>
  obind (slice_axis xs (match start with Some v => v | None => 0 end)
                       (match end_ with Some v => v | None => INT64_MAX end)
                       (match step with Some v => v | None => 1 end)) (fun ys => Some (a, ys))).

(* aten_narrow: Slice(self, start, start + length, dim).  fixed = true models the repaired code, which
   lets a negative start whose end would be 0 run to the end of the axis. *)
Definition narrow_end (fixed : bool) (start length : Z) : Z :=
  let e := start + length in
  if fixed && (start <? 0) && (e =? 0) then INT64_MAX else e.
Definition aten_narrow (fixed : bool) (r dim : Z) (xs : list A) (start length : Z) : option (Z * list A) :=
  obind (norm_axis r dim) (fun a =>
  obind (slice_axis xs start (narrow_end fixed start length) 1) (fun ys => Some (a, ys))).

(* aten_split / aten_split_with_sizes: SplitToSequence; aten_chunk: Identity or Split(num_outputs) *)
Definition aten_split (r dim : Z) (xs : list A) (c : Z) : option (Z * list (list A)) :=
  obind (norm_axis r dim) (fun a => obind (split_scalar (zlen xs) c) (fun sz => Some (a, cut xs sz))).
Definition aten_split_with_sizes (r dim : Z) (xs : list A) (sizes : list Z) : option (Z * list (list A)) :=
  obind (norm_axis r dim) (fun a => obind (split_sizes (zlen xs) sizes) (fun sz => Some (a, cut xs sz))).
Definition aten_chunk (r dim : Z) (xs : list A) (k : Z) : option (Z * list (list A)) :=
  if k =? 1 then obind (norm_axis r dim) (fun a => Some (a, [xs]))    (* Identity; dim is not even looked at *)
  else obind (norm_axis r dim) (fun a => obind (split_num_outputs (zlen xs) k) (fun sz => Some (a, cut xs sz))).

(* Shape-15 with start/end attributes: how many entries of a rank-r shape [start, end) selects, and the first *)
Definition shape_range (r st en : Z) : Z * Z :=
  let s0 := clampZ 0 r (if st <? 0 then st + r else st) in
  let e0 := clampZ 0 r (if en <? 0 then en + r else en) in
  (s0, Z.max 0 (e0 - s0)).

(* _aten_roll_shift_and_dim_onnx.  numel = Size(self) is used as the `ends` of the prefix slice.
   fixed = true models the repaired code: dim normalised first, slice length = (-shift) mod max(size,1),
   prefix sliced to INT64_MAX. *)
Definition roll_len (fixed : bool) (r dim n shift : Z) : option Z :=
  if fixed then Some ((- shift) mod (Z.max n 1))
  else if shift <? 0 then Some (- shift)
  else let '(first, cnt) := shape_range r dim (dim + 1) in
       if cnt =? 1 then (if first =? (if dim <? 0 then dim + r else dim) then Some (n - shift) else None)
       else None.                     (* Shape(start=-1, end=0) is empty: Slice gets starts of length 0 *)
Definition aten_roll_dim (fixed : bool) (r numel dim : Z) (xs : list A) (shift : Z) : option (Z * list A) :=
  obind (norm_axis r dim) (fun a =>
  obind (roll_len fixed r dim (zlen xs) shift) (fun L =>
  obind (slice_axis xs 0 L 1) (fun suffix =>
  obind (slice_axis xs L (if fixed then INT64_MAX else numel) 1) (fun prefix =>
    Some (a, (prefix ++ suffix)%list))))).

(* _aten_roll_shift_no_dim_onnx on the flattened tensor (xs = all elements) *)
Definition aten_roll_flat (fixed : bool) (xs : list A) (shift : Z) : option (list A) :=
  let n := zlen xs in
  let L := if fixed then (- shift) mod (Z.max n 1) else if shift <? 0 then - shift else n - shift in
  obind (slice_axis xs 0 L 1) (fun suffix =>
  obind (slice_axis xs L (if fixed then INT64_MAX else n) 1) (fun prefix => Some (prefix ++ suffix)%list)).

(* aten_roll: rank 0 or shape[0] == 0 return Identity *)
Definition roll_identity (r s0 : Z) : bool := (r =? 0) || (s0 =? 0).

(* aten_flip along one of the listed dims: Slice(starts=-1, ends=INT64_MIN, steps=-1) *)
Definition aten_flip1 (r dim : Z) (xs : list A) : option (Z * list A) :=
  obind (norm_axis r dim) (fun a => obind (slice_axis xs (-1) INT64_MIN (-1)) (fun ys => Some (a, ys))).

(* aten_index_select: a 0-d self is reshaped to [1] first (and squeezed afterwards) *)
Definition aten_index_select (r dim : Z) (xs : list A) (idx : list Z) : option (Z * list A) :=
  obind (norm_axis (if r =? 0 then 1 else r) dim) (fun a => obind (gather_axis xs idx) (fun ys => Some (a, ys))).
End Axis.

Definition aten_cumsum (r dim : Z) (xs : list (list Z)) : option (Z * list (list Z)) :=
  if r =? 0 then Some (0, xs) else obind (norm_axis r dim) (fun a => Some (a, cumsum_axis xs)).

Definition skel_select (dim index : Z) : skel := [("Gather", [[dim]; [index]])].
Definition cast_reshape (v : Z) : skel := [("Cast", [[7]; [v]]); ("Reshape", [[0]; [-1]])].
Definition skel_slice (dim : Z) (start end_ step : option Z) : skel :=
  ((match start with Some v => cast_reshape v | None => [] end)
   ++ (match end_ with Some v => cast_reshape v | None => [] end)
   ++ cast_reshape dim
   ++ (match step with Some v => cast_reshape v | None => [] end)
   ++ [("Slice", ((match start with Some _ => [] | None => [[0]] end)
                  ++ (match end_ with Some _ => [] | None => [[INT64_MAX]] end)
                  ++ (match step with Some _ => [] | None => [[1]] end))%list)])%list.
Definition skel_narrow (fixed : bool) (dim start length : Z) : skel :=
  ([("Reshape", [[0]; [dim]; [-1]]); ("Reshape", [[0]; [start]; [-1]]); ("Reshape", [[0]; [length]; [-1]]); ("Add", [])]
   ++ (if fixed then [("Less", [[0]]); ("Equal", [[0]]); ("And", []); ("Where", [[INT64_MAX]])] else [])
   ++ [("Slice", [])])%list.
Definition skel_split (dim c : Z) : skel := [("SplitToSequence", [[dim]; [1]; [c]])].
Definition skel_split_with_sizes (dim : Z) (sizes : list Z) : skel := [("SplitToSequence", [[dim]; [1]; sizes])].
Definition skel_chunk (dim k : Z) : skel := if k =? 1 then [("Identity", [])] else [("Split", [[dim]; [k]])].
Definition skel_roll_dim1 (fixed : bool) (r shift dim : Z) : skel :=
  if fixed then
    let d := if dim <? 0 then dim + r else dim in
    [("Shape", [[d + 1]; [d]]); ("Max", [[1]]); ("Mod", [[0]; [- shift]]); ("Slice", [[0]; [d]]);
     ("Slice", [[INT64_MAX]; [d]]); ("Concat", [[d]])]
  else if shift <? 0 then
    [("Slice", [[0]; [- shift]; [dim]]); ("Size", []); ("Reshape", [[0]; [-1]]); ("Slice", [[- shift]; [dim]]); ("Concat", [[dim]])]
  else
    [("Shape", [[dim + 1]; [dim]]); ("Sub", [[shift]]); ("Slice", [[0]; [dim]]); ("Size", []); ("Reshape", [[0]; [-1]]);
     ("Slice", [[dim]]); ("Concat", [[dim]])].
Definition skel_roll_flat (fixed : bool) (shift : Z) : skel :=
  if fixed then
    [("Reshape", [[0]; [-1]]); ("Size", []); ("Reshape", [[0]; [-1]]); ("Max", [[1]]); ("Mod", [[0]; [- shift]]);
     ("Slice", [[0]]); ("Slice", [[INT64_MAX]]); ("Concat", [[0]]); ("Shape", [[0]]); ("Reshape", [[1]])]
  else if shift <? 0 then
    [("Reshape", [[0]; [-1]]); ("Slice", [[0]; [- shift]]); ("Size", []); ("Reshape", [[0]; [-1]]); ("Slice", [[- shift]]);
     ("Concat", [[0]]); ("Shape", [[0]]); ("Reshape", [[0]])]
  else
    [("Reshape", [[0]; [-1]]); ("Size", []); ("Sub", [[shift]]); ("Slice", [[0]]); ("Size", []); ("Reshape", [[0]; [-1]]);
     ("Slice", []); ("Concat", [[0]]); ("Shape", [[0]]); ("Reshape", [[0]])].
Fixpoint skel_roll_dims (fixed : bool) (r : Z) (shifts dims : list Z) : skel :=
  match shifts, dims with
  | sh :: shifts', d :: dims' => (skel_roll_dim1 fixed r sh d ++ skel_roll_dims fixed r shifts' dims')%list
  | _, _ => []
  end.
Definition skel_roll (fixed : bool) (r s0 : Z) (shifts dims : list Z) : skel :=
  if roll_identity r s0 then [("Identity", [])]
  else match dims with
       | [] => match shifts with sh :: _ => skel_roll_flat fixed sh | [] => [] end
       | _ => skel_roll_dims fixed r shifts dims
       end.
Definition skel_flip (dims : list Z) : skel :=
  match dims with
  | [] => [("Identity", [])]
  | _ => let k := List.length dims in [("Slice", [repeat (-1) k; repeat INT64_MIN k; dims; repeat (-1) k])]
  end.
Definition skel_index_select (r dim : Z) : skel :=
  ((if r =? 0 then [("Reshape", [[0]; [-1]])] else [])
   ++ [("Reshape", [[0]; [-1]]); ("Cast", [[7]]); ("Gather", [[dim]])]
   ++ (if r =? 0 then [("Squeeze", [])] else []))%list.
Definition skel_cumsum (r dim : Z) : skel := if r =? 0 then [("Identity", [])] else [("CumSum", [[0]; [0]; [dim]])].

(* ================================================================== elementwise integer arithmetic *)
(* aten_floor_divide on integer tensors *)
Definition aten_floor_divide (signed : bool) (a b : Z) : Z :=
  if signed then
    let offset := (Bool.eqb (a <? 0) (0 <? b)) && negb (onnx_mod a b =? 0) in
    onnx_div_int a b - (if offset then 1 else 0)
  else onnx_div_int a b.
Definition skel_floor_divide (signed : bool) (int_code : Z) : skel :=
  if signed then
    [("Less", [[0]]); ("Greater", [[0]]); ("Equal", []); ("Mod", [[0]]); ("Cast", [[9]]); ("And", []); ("Cast", [[int_code]]);
     ("Div", []); ("Sub", [])]
  else [("Div", [])].
(* aten_div_mode on integer tensors (semantics in F32.v): Cast, Cast, Div, Floor | Abs Floor Sign Mul, CastLike *)
Definition skel_div_mode_int (floor_mode : bool) : skel :=
  if floor_mode then [("Cast", [[1]]); ("Cast", [[1]]); ("Div", []); ("Floor", []); ("CastLike", [])]
  else [("Cast", [[1]]); ("Cast", [[1]]); ("Div", []); ("Abs", []); ("Floor", []); ("Sign", []); ("Mul", []); ("CastLike", [])].
Definition aten_remainder (a b : Z) : Z := onnx_mod a b.
Definition skel_remainder : skel := [("Mod", [[0]])].
Definition aten_fmod (a b : Z) : Z := onnx_fmod a b.
Definition skel_fmod : skel := [("Mod", [[1]])].

(* aten_clamp (scalar bounds, CastLike then Clip) and aten_clamp_tensor (Max then Min) *)
Definition aten_clamp (x : Z) (lo hi : option Z) : Z :=
  match lo, hi with None, None => x | _, _ => onnx_clip x lo hi end.
Definition skel_clamp (lo hi : option Z) : skel :=
  match lo, hi with
  | None, None => [("Identity", [])]
  | _, _ => ((match lo with Some l => [("CastLike", [[l]])] | None => [] end)
             ++ (match hi with Some h => [("CastLike", [[h]])] | None => [] end) ++ [("Clip", [])])%list
  end.
Definition aten_clamp_tensor (x : Z) (lo hi : option Z) : Z :=
  let y := match lo with Some l => Z.max x l | None => x end in
  match hi with Some h => Z.min y h | None => y end.
Definition skel_clamp_tensor (lo hi : bool) : skel :=
  if negb lo && negb hi then [("Identity", [])]
  else ((if lo then [("CastLike", []); ("Max", [])] else []) ++ (if hi then [("CastLike", []); ("Min", [])] else []))%list.

(* aten_arange_start_step with python ints and no dtype: Range *)
Definition aten_arange (start end_ step : Z) : option (list Z) := onnx_range start end_ step.
Definition skel_arange (start end_ step : Z) : skel := [("Range", [[start]; [end_]; [step]])].

(* aten_tril / aten_triu: Trilu(self, diagonal, upper) *)
Definition aten_tril_keep (k i j : Z) : bool := trilu_keep false k i j.
Definition aten_triu_keep (k i j : Z) : bool := trilu_keep true k i j.
Definition skel_trilu (upper : bool) (k : Z) : skel := [("Trilu", [kd upper; [k]])].
