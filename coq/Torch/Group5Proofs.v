(* C08 (fifth group) -- proofs about the models of Group5.v: for every rank / extent / dim the composition emitted by the
   torch_lib function equals PyTorch's semantics on the stated domain. *)
From Coq Require Import ZArith List Bool Lia ZifyBool.
Require Import OV.Torch.Onnx OV.Torch.Onnx2 OV.Torch.Onnx3 OV.Torch.Spec OV.Torch.Spec2 OV.Torch.Aten OV.Torch.Aten2
               OV.Torch.Lemmas OV.Torch.ShapeProofs OV.Torch.AxisProofs OV.Torch.PadProofs OV.Torch.Group5.
Import ListNotations.
Local Open Scope Z_scope.

(* ------------------------------------------------------------------ select_scatter *)
Lemma select_scatter_correct : forall (A : Type) r dim (xs : list A) u index, 0 <= r ->
  aten_select_scatter r dim xs u index = torch_select_scatter r dim xs u index.
Proof.
  intros A r dim xs u index Hr. unfold aten_select_scatter, torch_select_scatter, torch_axis, scatter_elements_const.
  destruct (r =? 0) eqn:Er.
  - assert (r = 0) by lia. subst r. unfold norm_axis.
    replace ((- 0 <=? dim) && (dim <? 0)) with false by lia. reflexivity.
  - rewrite wrap_dim_norm_axis by lia. destruct (norm_axis r dim); [|reflexivity]. cbn [obind].
    destruct ((- zlen xs <=? index) && (index <? zlen xs)); reflexivity.
Qed.

(* ------------------------------------------------------------------ slice_scatter *)
Lemma swap0_f_range : forall r d i, 0 <= d < r -> 0 <= i < r -> 0 <= (if i =? 0 then d else if i =? d then 0 else i) < r.
Proof. intros r d i Hd Hi. destruct (i =? 0); [lia|]. destruct (i =? d); lia. Qed.
Lemma swap0_f_invol : forall d i, (let f := fun i => if i =? 0 then d else if i =? d then 0 else i in f (f i)) = i.
Proof.
  intros d i. cbv beta zeta. destruct (i =? 0) eqn:E0.
  - destruct (d =? 0) eqn:Ed; [lia|]. rewrite Z.eqb_refl. lia.
  - destruct (i =? d) eqn:Ed; [cbn [Z.eqb]; lia|]. rewrite E0, Ed. reflexivity.
Qed.

(* the perm python builds is a permutation of 0 .. r-1 for every rank and every dim the list indexing accepts *)
Lemma swap0_is_perm : forall r dim p, swap0_perm r dim = Some p -> is_perm r p = true.
Proof.
  intros r dim p. unfold swap0_perm. destruct (norm_axis r dim) as [d|] eqn:E; [|discriminate]. cbn [obind].
  intro H; inversion H; subst p; clear H. apply norm_axis_range in E. destruct E as [Hd _].
  unfold is_perm. apply andb_true_intro. split.
  - unfold zlen. rewrite map_length. rewrite iota_length by lia. lia.
  - apply forallb_forall. intros i Hi. apply iota_In in Hi. apply has_In.
    apply in_map_iff. exists (if i =? 0 then d else if i =? d then 0 else i). split.
    + apply (swap0_f_invol d i).
    + apply iota_In. apply swap0_f_range; assumption.
Qed.
(* applied twice it is the identity: the final Transpose with the same perm restores the original axis order *)
Lemma swap0_involutive : forall r dim p i, swap0_perm r dim = Some p -> 0 <= i < r ->
  obind (nthZ p i) (nthZ p) = Some i.
Proof.
  intros r dim p i. unfold swap0_perm. destruct (norm_axis r dim) as [d|] eqn:E; [|discriminate]. cbn [obind].
  intro H; inversion H; subst p; clear H. intro Hi. apply norm_axis_range in E. destruct E as [Hd _].
  assert (Hn : forall j, 0 <= j < r -> nthZ (map (fun i0 => if i0 =? 0 then d else if i0 =? d then 0 else i0) (iota r)) j
                                       = Some (if j =? 0 then d else if j =? d then 0 else j)).
  { intros j Hj. unfold nthZ. replace (j <? 0) with false by lia. rewrite nth_error_map. unfold iota. rewrite nth_error_map.
    rewrite (nth_error_nth' _ 0%nat) by (rewrite seq_length; lia). rewrite seq_nth by lia. cbn [option_map]. f_equal.
    replace (Z.of_nat (0 + Z.to_nat j)) with j by lia. reflexivity. }
  rewrite (Hn i Hi). cbn [obind]. rewrite Hn by (apply swap0_f_range; assumption). f_equal. apply (swap0_f_invol d i).
Qed.
(* axis 0 of the transposed tensor is the wrapped dim *)
Lemma swap0_first : forall r dim p, swap0_perm r dim = Some p -> nthZ p 0 = norm_axis r dim.
Proof.
  intros r dim p. unfold swap0_perm. destruct (norm_axis r dim) as [d|] eqn:E; [|discriminate]. cbn [obind].
  intro H; inversion H; subst p; clear H. apply norm_axis_range in E. destruct E as [Hd _].
  unfold iota. destruct (Z.to_nat r) eqn:Er; [lia|]. reflexivity.
Qed.

Lemma slice_scatter_correct : forall (A : Type) r dim (xs us : list A) start end_ step,
  0 < r -> 0 < step ->
  aten_slice_scatter r dim xs us start end_ step = torch_slice_scatter r dim xs us start end_ step.
Proof.
  intros A r dim xs us start end_ step Hr Hs. unfold aten_slice_scatter, torch_slice_scatter, torch_axis, dflt.
  replace (r =? 0) with false by lia. rewrite wrap_dim_norm_axis by lia.
  destruct (norm_axis r dim) as [a|] eqn:E; [|reflexivity]. cbn [obind].
  rewrite slice_core by assumption.
  destruct (torch_slice (iota (zlen xs)) start end_ step) as [pos|]; [|reflexivity]. cbn [obind].
  destruct (dim =? 0) eqn:Ed; cbn [obind orb]; [reflexivity|].
  unfold swap0_perm at 1. rewrite E. cbn [obind].
  assert (Hp : swap0_perm r dim = Some (map (fun i => if i =? 0 then a else if i =? a then 0 else i) (iota r))) by (unfold swap0_perm; rewrite E; reflexivity).
  rewrite (swap0_is_perm _ _ _ Hp). reflexivity.
Qed.

(* ------------------------------------------------------------------ repeat_interleave.Tensor: the index pipeline *)
Definition sumZ (l : list Z) : Z := fold_right Z.add 0 l.
Lemma sumZ_nonneg : forall l, Forall (fun r => 0 <= r) l -> 0 <= sumZ l.
Proof. induction 1; cbn [sumZ fold_right]; [lia|]. fold (sumZ l). lia. Qed.

Lemma seq_off : forall n a, map Z.of_nat (seq a n) = map (fun i => Z.of_nat a + i) (map Z.of_nat (seq 0 n)).
Proof.
  induction n; intro a; [reflexivity|]. cbn [seq map]. f_equal; [lia|].
  rewrite (IHn (S a)), (IHn 1%nat). rewrite !map_map. apply map_ext. intro x. lia.
Qed.
Lemma iota_app : forall a b, 0 <= a -> 0 <= b -> iota (a + b) = iota a ++ map (Z.add a) (iota b).
Proof.
  intros a b Ha Hb. unfold iota. replace (Z.to_nat (a + b)) with (Z.to_nat a + Z.to_nat b)%nat by lia.
  rewrite seq_app, map_app. f_equal. cbn [plus]. rewrite seq_off. apply map_ext. intro x. lia.
Qed.
Lemma map_const_repeat : forall (B : Type) (l : list Z) (b : B), map (fun _ => b) l = repeat b (length l).
Proof. induction l; intro b; [reflexivity|]. cbn [map length repeat]. f_equal. apply IHl. Qed.

Lemma cumsum_z_lower : forall t a c, Forall (fun r => 0 <= r) t -> In c (cumsum_z a t) -> a <= c.
Proof.
  induction t as [|x t IH]; intros a c H Hin; [destruct Hin|]. inversion H; subst. cbn [cumsum_z] in Hin.
  destruct Hin as [<- | Hin]; [lia|]. specialize (IH _ _ H3 Hin). lia.
Qed.
Lemma cumsum_z_length : forall t a, zlen (cumsum_z a t) = zlen t.
Proof. induction t; intro a0; [reflexivity|]. cbn [cumsum_z]. rewrite !zlen_cons, IHt. reflexivity. Qed.
Lemma count_gt_all : forall l j, (forall c, In c l -> j < c) -> count_gt j l = zlen l.
Proof.
  intros l j H. unfold count_gt. rewrite filter_id; [reflexivity|]. intros c Hc. specialize (H c Hc). lia.
Qed.
Lemma count_gt_cons : forall j c l, count_gt j (c :: l) = (if j <? c then 1 else 0) + count_gt j l.
Proof. intros j c l. unfold count_gt. cbn [filter]. destruct (j <? c); [rewrite zlen_cons|]; lia. Qed.

(* n - #{i : j < ci[i]} enumerates, for j = acc .. acc + sum - 1, index b repeated r_0 times, b + 1 repeated r_1 times, ... *)
Lemma ri_indices_gen : forall reps acc b, Forall (fun r => 0 <= r) reps ->
  map (fun j => b + zlen reps - count_gt j (cumsum_z acc reps)) (map (Z.add acc) (iota (sumZ reps))) = ri_from b reps.
Proof.
  induction reps as [|r t IH]; intros acc b H; [reflexivity|]. inversion H as [|? ? Hr Ht]; subst.
  cbn [sumZ fold_right cumsum_z ri_from]. fold (sumZ t). pose proof (sumZ_nonneg _ Ht) as Hs.
  rewrite iota_app by assumption. rewrite !map_app. f_equal.
  - rewrite map_map. rewrite <- (iota_length r) by assumption. rewrite <- map_const_repeat. apply map_ext_in.
    intros i Hi. apply iota_In in Hi. rewrite count_gt_cons. replace (acc + i <? acc + r) with true by lia.
    rewrite count_gt_all; [rewrite cumsum_z_length, zlen_cons; lia|].
    intros c Hc. apply cumsum_z_lower in Hc; [lia|assumption].
  - rewrite <- (IH (acc + r) (b + 1) Ht). rewrite !map_map. apply map_ext_in. intros i Hi. apply iota_In in Hi.
    rewrite count_gt_cons. replace (acc + (r + i) <? acc + r) with false by lia. rewrite zlen_cons.
    replace (acc + r + i) with (acc + (r + i)) by lia. lia.
Qed.

Lemma last_opt_cumsum : forall t a x, last_opt (cumsum_z a (x :: t)) = Some (a + sumZ (x :: t)).
Proof.
  induction t as [|y t IH]; intros a x.
  - cbn. f_equal. lia.
  - specialize (IH (a + x) y). unfold last_opt in *. cbn [cumsum_z rev] in *.
    destruct (rev (cumsum_z (a + x + y) t)) eqn:E; cbn [app] in *.
    + inversion IH. f_equal. unfold sumZ in *. cbn [fold_right] in *. lia.
    + inversion IH. f_equal. unfold sumZ in *. cbn [fold_right] in *. lia.
Qed.

Lemma ri_from_range : forall reps b x, In x (ri_from b reps) -> b <= x < b + zlen reps.
Proof.
  induction reps as [|r t IH]; intros b x Hin; [destruct Hin|]. cbn [ri_from] in Hin. rewrite zlen_cons.
  pose proof (zlen_nonneg _ t). apply in_app_or in Hin. destruct Hin as [Hin | Hin].
  - apply repeat_spec in Hin. lia.
  - apply IH in Hin. lia.
Qed.
Lemma nthZ_iota : forall n i, 0 <= i < n -> nthZ (iota n) i = Some i.
Proof.
  intros n i Hi. unfold nthZ, iota. replace (i <? 0) with false by lia. rewrite nth_error_map.
  rewrite (nth_error_nth' _ 0%nat) by (rewrite seq_length; lia). rewrite seq_nth by lia. cbn [option_map]. f_equal. lia.
Qed.
Lemma zlen_iota : forall n, 0 <= n -> zlen (iota n) = n.
Proof. intros n Hn. unfold zlen. rewrite iota_length by assumption. lia. Qed.
Lemma gather_iota_id : forall n idx, 0 <= n -> (forall x, In x idx -> 0 <= x < n) -> gather_axis (iota n) idx = Some idx.
Proof.
  intros n idx Hn. unfold gather_axis. induction idx as [|x t IH]; intro H; [reflexivity|]. cbn [omap_all].
  assert (Hx : 0 <= x < n) by (apply H; left; reflexivity).
  unfold gather1 at 1. rewrite zlen_iota by assumption. replace ((- n <=? x) && (x <? n)) with true by lia.
  replace (x <? 0) with false by lia. rewrite nthZ_iota by assumption.
  rewrite IH by (intros y Hy; apply H; right; assumption). reflexivity.
Qed.

(* for every non-empty list of non-negative counts the emitted pipeline yields PyTorch's result *)
Lemma repeat_interleave_tensor_correct : forall reps, reps <> [] -> Forall (fun r => 0 <= r) reps ->
  aten_repeat_interleave_tensor reps = torch_repeat_interleave_tensor reps.
Proof.
  intros reps Hne H. unfold aten_repeat_interleave_tensor, torch_repeat_interleave_tensor, repeat_interleave_indices.
  rewrite existsb_false by (intros x Hx; rewrite Forall_forall in H; specialize (H x Hx); lia).
  destruct reps as [|x t]; [congruence|]. rewrite last_opt_cumsum. cbn [option_map obind].
  pose proof (ri_indices_gen (x :: t) 0 0 H) as G. rewrite map_map in G.
  replace (0 + sumZ (x :: t)) with (sumZ (x :: t)) by lia.
  rewrite (map_ext _ (fun j => 0 + zlen (x :: t) - count_gt (0 + j) (cumsum_z 0 (x :: t)))) by (intro j; f_equal; lia).
  rewrite G. apply gather_iota_id; [apply zlen_nonneg|].
  intros y Hy. apply ri_from_range in Hy. lia.
Qed.
(* an empty `repeats`: Gather(ci, [-1]) has nothing to gather; PyTorch returns an empty tensor (listed skip in the repository's test table) *)
Lemma repeat_interleave_tensor_empty_refuted : aten_repeat_interleave_tensor [] = None /\ torch_repeat_interleave_tensor [] = Some [].
Proof. split; reflexivity. Qed.
