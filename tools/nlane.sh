#!/bin/bash
# nlane.sh <dirs...>: neutral patches one after the other from the second isolated snapshot
for d in "$@"; do VERIF_HOME=/var/tmp/osv/vsnap2 /verif/tools/try_neutral.py $d 2>&1 | grep -v WARNING | cut -c1-900 >> ${NLOG:-/var/tmp/osv/neutral.log}; done
