#!/bin/bash
# try_chain.sh Cxx-1 Cxx-2 ... : runs the given seeds sequentially (same property must never run concurrently)
for s in "$@"; do /verif/tools/try_seed.py $s >> /var/tmp/osv/try.log 2>&1; done
