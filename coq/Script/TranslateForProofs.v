(* Stage S3 (first part): `for` loops at the top level of a body whose other statements are of the S2 class.
   The Loop node is evaluated by induction on the trip count; at the start of every iteration the simulation
   invariant is re-established for the body graph's environment (iteration number, condition, carried values bound
   over the environment captured at the Loop node) from: the values carried so far are the values of the state
   variables in the Python environment, and everything the body reads that is not state is unchanged since before
   the loop.  Kernel laws assumed: Identity is the identity, and `truth (of_bool b) = Some b` (the loop condition
   passed to the body is read back as a bool). *)
From Coq Require Import List String ZArith Bool Arith Lia.
Require Import OV.Graph.Syntax OV.Graph.Sem OV.Graph.SemProofs OV.Graph.Wf OV.Graph.WfProofs.
Require Import OV.Script.Syntax OV.Script.Sets OV.Gen.Analysis OV.Gen.ScriptTables OV.Script.Translate OV.Script.PySem
               OV.Script.TranslateProofs OV.Script.AnalysisProofs OV.Script.LivenessProofs OV.Script.TranslateIfProofs.
Require Import OV.Script.TranslateForDefs.
Import ListNotations.
Local Open Scope string_scope.
Local Open Scope list_scope.

Lemma In_ssubset : forall a b, ssubset a b = true -> forall x, In x a -> In x b.
Proof. intros a b H x Hx. unfold ssubset in H. rewrite forallb_forall in H. apply mem_In. apply H. exact Hx. Qed.

Section S3.
  Variable V : Type.
  Variable sem : string -> string -> list (string * attrv) -> list (option V) -> option (list V).
  Variable truth : V -> option bool.
  Variable trip : V -> option nat.
  Variable of_nat : nat -> V.
  Variable of_bool : bool -> V.
  Variable limit : nat.
  Variable while_limit : nat.
  Variable globals : list (string * lit).
  Variable cic : expr -> option bool.
  Variable afuel : nat.
  Variable inputs : list vname.

  Hypothesis sem_identity : forall v, sem "" "Identity" [] [Some v] = Some [v].
  Hypothesis truth_of_bool : forall b, truth (of_bool b) = Some b.
  Hypothesis cic_sound : forall c b pe v, cic c = Some b -> eval_expr V sem globals pe c = Some v -> ptruth V truth v = Some b.

  Notation penv := (penv V).
  Notation eval_expr := (eval_expr V sem globals).
  Notation eval_graph := (Sem.eval_graph V sem truth trip of_nat of_bool limit).
  Notation runk k := (Sem.run V sem truth trip of_nat of_bool limit (Sem.eval_graph V sem truth trip of_nat of_bool limit k)).
  Notation tr_stmts := (tr_stmts globals cic afuel false inputs).
  Notation exec_block := (exec_block V sem truth trip of_nat while_limit globals).
  Notation exec_stmt1 := (exec_stmt1 V sem truth trip of_nat while_limit globals).
  Notation inv_on := (inv_on V).
  Notation all_PT := (all_PT V).
  Notation tr_loop_body := (tr_loop_body globals cic afuel inputs).
  Notation assign_ok := (assign_ok globals).

  (* ---- the statements of the loop body: assignments; the invariant is kept on a growing set of names *)

  Lemma loop_body_sound : forall k fu lo_body body, forallb assign_ok body = true ->
    forall sc_b st sc_b' brk st' ns M Lk pe ρ f2 o,
    tr_loop_body fu lo_body body sc_b st = Some ((sc_b', brk), st', ns) ->
    live_block cic afuel body lo_body = Some Lk -> incl Lk M ->
    inv_on M pe sc_b ρ st -> all_PT pe ->
    exec_block (S f2) body pe = Some o ->
    exists pe' ρ' M', o = ONormal V pe' /\ brk = None /\ runk k ρ ns = Some ρ' /\ inv_on M' pe' sc_b' ρ' st' /\ incl M M' /\
                      all_PT pe' /\ grows V ρ ρ' st st'.
  Proof.
    intros k fu lo_body. induction body as [|s rest IH]; intros Hc sc_b st sc_b' brk st' ns M Lk pe ρ f2 o Htr Hl Hin Hinv Hall Hex.
    - cbn in Htr. apply ret_some in Htr. destruct Htr as (E & -> & ->). inversion E; subst sc_b' brk.
      rewrite exec_block_nil in Hex. inversion Hex; subst o.
      exists pe, ρ, M. split; [reflexivity|]. split; [reflexivity|]. split; [reflexivity|]. split; [exact Hinv|].
      split; [apply incl_refl|]. split; [exact Hall|]. apply grows_refl'. exact (proj2 (proj2 Hinv)).
    - cbn [forallb] in Hc. apply andb_true_iff in Hc. destruct Hc as [Hs Hr].
      destruct s as [x e| | | | | |]; try discriminate Hs. cbn [TranslateForDefs.assign_ok] in Hs.
      rewrite live_block_cons in Hl. destruct (live_block cic afuel rest lo_body) as [l1|] eqn:El; [|discriminate].
      rewrite live_assign in Hl. inversion Hl; subst Lk. clear Hl.
      cbn [TranslateForDefs.tr_loop_body is_break_if] in Htr. fold (tr_loop_body fu lo_body) in Htr.
      apply bind_some in Htr. destruct Htr as (lo0 & st0 & n0 & n0' & Hlift & Htr & ->).
      apply lift_some in Hlift. destruct Hlift as (_ & -> & ->).
      apply bind_some in Htr. destruct Htr as (r0 & stB & n1 & n2 & Has & Htr & ->).
      apply bind_some in Has. destruct Has as (v & st1 & n3 & n4 & Hte & Hret & ->).
      apply ret_some in Hret. destruct Hret as (-> & -> & ->). cbn [fst snd] in Htr.
      rewrite exec_block_cons in Hex. cbn [AnalysisProofs.exec_stmt1] in Hex.
      destruct (eval_expr pe e) as [pv|] eqn:Ee; [|discriminate].
      assert (Hoke : expr_ok e = true). { unfold rhs_ok in Hs. apply andb_true_iff in Hs. apply Hs. }
      destruct (tr_expr_sound_on V sem truth trip of_nat of_bool limit globals (eval_graph k) e M sc_b (Some x) st v st1 n3 pe ρ pv
                  Hoke ltac:(intros y Hy; apply Hin; apply In_sunion; right; exact Hy) Hte Hinv Ee) as (ρ1 & R1 & Rv & G1).
      destruct (IH Hr (bind_var x (BV v) sc_b) st1 sc_b' brk st' n2 (x :: M) l1 ((x, pv) :: pe) ρ1 f2 o Htr eq_refl)
        as (pe' & ρ' & M' & -> & -> & R2 & Hinv2 & HM & Hall2 & G2); [| | |exact Hex|].
      + intros y Hy. destruct (string_dec y x) as [E|E]; [left; symmetry; exact E|]. right. apply Hin.
        apply In_sunion. left. apply In_sdiff. split; [exact Hy|]. intros [H|[]]. congruence.
      + eapply inv_on_assign; [eapply inv_on_grows; [exact Hinv | exact G1] | exact Rv|].
        intros y [Hy|Hy]; [left; symmetry; exact Hy | right; exact Hy].
      + apply all_PT_cons; [exact Hall|]. eapply rhs_tensor; eassumption.
      + exists pe', ρ', M'. split; [reflexivity|]. split; [reflexivity|].
        split; [cbn [app]; rewrite app_nil_r, run_app, R1; exact R2|]. split; [exact Hinv2|].
        split; [intros y Hy; apply HM; right; exact Hy|]. split; [exact Hall2|]. eapply grows_trans; eassumption.
  Qed.

  (* ---- the outputs of the loop body graph *)

  Lemma loop_outputs_sound : forall k state sc_b acc prev st outs nodes st' ns pe ρ L,
    loop_outputs globals false sc_b state acc prev st = Some ((outs, nodes), st', ns) ->
    inv_on L pe sc_b ρ st -> all_PT pe -> incl state L -> (forall x, In x state -> lookup_assoc x globals = None) ->
    exists extra ρ' vals, nodes = acc ++ extra /\ runk k ρ extra = Some ρ' /\ lookups ρ' outs = Some vals /\
      Forall2 (fun x v => plookup V pe x = Some (PT V v)) state vals /\ grows V ρ ρ' st st'.
  Proof.
    intros k. induction state as [|pv t IH]; intros sc_b acc prev st outs nodes st' ns pe ρ L H Hinv Hall Hin Hng; cbn [loop_outputs] in H.
    - apply ret_some in H. destruct H as (E & -> & _). inversion E; subst.
      exists [], ρ, []. rewrite app_nil_r. split; [reflexivity|]. split; [reflexivity|]. split; [reflexivity|].
      split; [constructor | apply grows_refl'; exact (proj2 (proj2 Hinv))].
    - assert (HpvL : In pv L) by (apply Hin; left; reflexivity).
      assert (HtL : incl t L) by (intros y Hy; apply Hin; right; exact Hy).
      assert (Htg : forall x, In x t -> lookup_assoc x globals = None) by (intros y Hy; apply Hng; right; exact Hy).
      apply bind_some in H. destruct H as (vn & st1 & n1 & n2 & Hcap & H & _).
      apply capture_some in Hcap. destruct Hcap as (a & n0 & Hto & -> & _). cbn [fst snd] in H. cbv zeta in H.
      unfold py_var in Hto. destruct (scopes_find pv sc_b) as [b|] eqn:Es.
      2:{ rewrite (Hng pv (or_introl eq_refl)) in Hto. discriminate Hto. }
      destruct (inv_on_bound V L pe sc_b ρ st pv b Hinv Hall HpvL Es) as (n & v & -> & Hp & Hl & Hnc).
      cbn [to_onnx_var] in Hto. apply ret_some in Hto. destruct Hto as (-> & -> & ->). rewrite app_nil_r in H.
      destruct (keep_as_output false n acc prev).
      + apply bind_some in H. destruct H as (r & st2 & n3 & n4 & Hr & Hret & _).
        apply ret_some in Hret. destruct Hret as (E & -> & _). inversion E; subst outs nodes. destruct r as [ro rn]. cbn [fst snd] in *.
        destruct (IH sc_b _ _ st ro rn st2 n3 pe ρ L Hr Hinv Hall HtL Htg) as (extra & ρ' & vals & En & Rr & Lr & Fr & Gr).
        exists extra, ρ', (v :: vals). split; [exact En|]. split; [exact Rr|]. split.
        * cbn [lookups]. rewrite (proj1 Gr); [rewrite Hl, Lr; reflexivity|]. eapply (proj1 (proj2 (proj2 Hinv))). exact Hl.
        * split; [constructor; assumption | exact Gr].
      + apply bind_some in H. destruct H as (c & st2 & n3 & n4 & Hu & H & _).
        apply uniq_some in Hu. destruct Hu as (Hu & _).
        apply bind_some in H. destruct H as (r & st3 & n5 & n6 & Hr & Hret & _).
        apply ret_some in Hret. destruct Hret as (E & -> & _). inversion E; subst outs nodes. destruct r as [ro rn]. cbn [fst snd] in *.
        destruct (identity_copy V sem truth trip of_nat of_bool limit (eval_graph k) sem_identity ρ st pv c st2 n v (proj2 (proj2 Hinv)) Hl Hu) as (Rc & Gc).
        destruct (IH sc_b _ _ st2 ro rn st3 n5 pe ((c, v) :: ρ) L Hr (inv_on_grows V _ _ _ _ _ _ _ Hinv Gc) Hall HtL Htg)
          as (extra & ρ' & vals & En & Rr & Lr & Fr & Gr).
        exists (identity n c :: extra), ρ', (v :: vals). split; [rewrite En, <- app_assoc; reflexivity|].
        split; [rewrite run_cons1, Rc; exact Rr|]. split.
        * cbn [lookups]. rewrite (proj1 Gr); [|apply gen_unique_fresh in Hu; destruct Hu as (_ & -> & _); left; reflexivity].
          cbn [lookup]. rewrite String.eqb_refl, Lr. reflexivity.
        * split; [constructor; assumption | eapply grows_trans; eassumption].
  Qed.
End S3.

Lemma present_map_some : forall l : list vname, present (map Some l) = l.
Proof. induction l as [|x t IH]; cbn; [reflexivity | rewrite IH; reflexivity]. Qed.

Lemma mono_loop_outputs : forall globals legacy sc_b state acc prev, mono (loop_outputs globals legacy sc_b state acc prev).
Proof.
  intros globals legacy sc_b state. induction state as [|pv t IH]; intros acc prev; cbn [loop_outputs]; [apply mono_ret|].
  apply mono_bind; [apply mono_capture; apply mono_py_var|]. intros vn. cbv zeta.
  destruct (keep_as_output legacy (fst vn) (acc ++ snd vn) prev).
  - apply mono_bind; [apply IH|]. intros r. apply mono_ret.
  - apply mono_bind; [apply mono_uniq|]. intros c. apply mono_bind; [apply IH|]. intros r. apply mono_ret.
Qed.

Lemma quiet_loop_outputs : forall globals legacy sc_b state acc prev, quiet (loop_outputs globals legacy sc_b state acc prev).
Proof.
  intros globals legacy sc_b state. induction state as [|pv t IH]; intros acc prev; cbn [loop_outputs]; [apply quiet_ret|].
  apply quiet_bind; [apply quiet_capture|]. intros vn. cbv zeta.
  destruct (keep_as_output legacy (fst vn) (acc ++ snd vn) prev).
  - apply quiet_bind; [apply IH|]. intros r. apply quiet_ret.
  - apply quiet_bind; [apply quiet_uniq|]. intros c. apply quiet_bind; [apply IH|]. intros r. apply quiet_ret.
Qed.

Section LoopBodyStatic.
  Variable globals : list (string * lit).
  Variable cic : expr -> option bool.
  Variable afuel : nat.
  Variable inputs : list vname.

  Lemma mono_tr_loop_body : forall fu lo_body body sc_b, forallb (assign_ok globals) body = true ->
    mono (tr_loop_body globals cic afuel inputs fu lo_body body sc_b).
  Proof.
    intros fu lo_body. induction body as [|s rest IH]; intros sc_b Hc; [cbn; apply mono_ret|].
    cbn [forallb] in Hc. apply andb_true_iff in Hc. destruct Hc as [Hs Hr].
    destruct s as [x e| | | | | |]; try discriminate Hs.
    cbn [TranslateForDefs.tr_loop_body is_break_if]. fold (tr_loop_body globals cic afuel inputs fu lo_body).
    apply mono_bind; [apply mono_lift|]. intros lo0.
    apply mono_bind; [|intros r0; apply IH; exact Hr].
    apply mono_bind; [apply mono_tr_expr|]. intros v. apply mono_ret.
  Qed.

  Lemma loop_body_nobreak : forall fu lo_body body sc_b st sc_b' brk st' ns, forallb (assign_ok globals) body = true ->
    tr_loop_body globals cic afuel inputs fu lo_body body sc_b st = Some ((sc_b', brk), st', ns) -> brk = None.
  Proof.
    intros fu lo_body. induction body as [|s rest IH]; intros sc_b st sc_b' brk st' ns Hc H.
    - cbn in H. apply ret_some in H. destruct H as (E & _). inversion E. reflexivity.
    - cbn [forallb] in Hc. apply andb_true_iff in Hc. destruct Hc as [Hs Hr].
      destruct s as [x e| | | | | |]; try discriminate Hs.
      cbn [TranslateForDefs.tr_loop_body is_break_if] in H. fold (tr_loop_body globals cic afuel inputs fu lo_body) in H.
      apply bind_some in H. destruct H as (lo0 & st0 & n0 & n0' & _ & H & _).
      apply bind_some in H. destruct H as (r0 & st1 & n1 & n2 & _ & H & _).
      eapply IH; [exact Hr | exact H].
  Qed.
End LoopBodyStatic.

Section S3Loop.
  Variable V : Type.
  Variable sem : string -> string -> list (string * attrv) -> list (option V) -> option (list V).
  Variable truth : V -> option bool.
  Variable trip : V -> option nat.
  Variable of_nat : nat -> V.
  Variable of_bool : bool -> V.
  Variable limit : nat.
  Variable while_limit : nat.
  Variable globals : list (string * lit).
  Variable cic : expr -> option bool.
  Variable afuel : nat.
  Variable inputs : list vname.

  Hypothesis sem_identity : forall v, sem "" "Identity" [] [Some v] = Some [v].
  Hypothesis truth_of_bool : forall b, truth (of_bool b) = Some b.
  Hypothesis cic_sound : forall c b pe v, cic c = Some b -> eval_expr V sem globals pe c = Some v -> ptruth V truth v = Some b.

  Notation penv := (penv V).
  Notation eval_expr := (eval_expr V sem globals).
  Notation eval_graph := (Sem.eval_graph V sem truth trip of_nat of_bool limit).
  Notation runk k := (Sem.run V sem truth trip of_nat of_bool limit (Sem.eval_graph V sem truth trip of_nat of_bool limit k)).
  Notation exec_block := (exec_block V sem truth trip of_nat while_limit globals).
  Notation inv_on := (inv_on V).
  Notation all_PT := (all_PT V).
  Notation tr_loop_body := (tr_loop_body globals cic afuel inputs).
  Notation assign_ok := (assign_ok globals).
  Notation for_iter := (for_iter V sem truth trip of_nat while_limit globals).

  (* ---- the environment a loop body graph starts in: iteration number, condition, carried values over the
     environment at the Loop node *)
  Lemma loop_env : forall (ρ1 : env V) stb cin stc std i lv ste state ps stf nps vj vc vs,
    st_ok V ρ1 stb ->
    gen_unique "cond_in" stb = Some (cin, stc) -> st_ext stc std ->
    gen_unique i std = Some (lv, ste) ->
    mapM uniq state ste = Some (ps, stf, nps) ->
    List.length vs = List.length ps ->
    exists ρb, Sem.bind (lv :: cin :: ps) (vj :: vc :: vs) ρ1 = Some ρb /\
      grows V ρ1 ρb stb stf /\ rel V ρb (ts_castable stf) (PT V vj) lv /\ lookup ρb cin = Some vc /\
      Forall2 (fun n v => rel V ρb (ts_castable stf) (PT V v) n) ps vs.
  Proof.
    intros ρ1 stb cin stc std i lv ste state ps stf nps vj vc vs Hok Hcin Xcd Hlv Hps Lv.
    pose proof (st_ext_unique _ _ _ _ Hcin) as Xbc. pose proof (st_ext_unique _ _ _ _ Hlv) as Xde.
    pose proof (gen_unique_fresh _ _ _ _ Hcin) as (Fc1 & Fc2 & _ & Fc4 & _).
    pose proof (gen_unique_fresh _ _ _ _ Hlv) as (Fl1 & Fl2 & _ & Fl4 & _).
    assert (Xbd : st_ext stb std) by (eapply st_ext_trans; eassumption).
    assert (Xbe : st_ext stb ste) by (eapply st_ext_trans; eassumption).
    assert (Xef : st_ext ste stf). { eapply mono_mapM; [intros a; apply mono_uniq | exact Hps]. }
    assert (Xbf : st_ext stb stf) by (eapply st_ext_trans; eassumption).
    pose proof (grows_st_ext V ρ1 stb ste Hok Xbe) as Gbe.
    assert (Hoke : st_ok V ρ1 ste) by apply Gbe.
    destruct (mapM_uniq_sound V truth trip of_nat limit (eval_graph 0) state ste ps stf nps ρ1 Hoke Hps) as (_ & Hlen & Hfresh & Hb).
    destruct (Hb vs Lv) as (ρps & Bps & (Gp1 & Gp2 & Gp3 & Gp4a & Gp4b) & Fps).
    assert (Hcin_std : In cin (ts_used std)). { apply (proj1 Xcd). rewrite Fc2. left. reflexivity. }
    assert (Hcin_ste : In cin (ts_used ste)). { rewrite Fl2. right. exact Hcin_std. }
    assert (Hlv_ste : In lv (ts_used ste)). { rewrite Fl2. left. reflexivity. }
    assert (Hne : cin <> lv). { intro E. subst. contradiction. }
    exists ((lv, vj) :: (cin, vc) :: ρps). split; [cbn [Sem.bind]; rewrite Bps; reflexivity|].
    split; [|split; [|split]].
    - split; [|split; [exact (proj1 Xbf) | split; [exact (proj1 (proj2 Xbf))|split]]].
      + intros m Hm. cbn [lookup].
        destruct (String.eqb m lv) eqn:E1.
        { apply String.eqb_eq in E1. subst. exfalso. apply Fl1. apply (proj1 Xbd). exact Hm. }
        destruct (String.eqb m cin) eqn:E2.
        { apply String.eqb_eq in E2. subst. contradiction. }
        apply Gp1. apply (proj1 Xbe). exact Hm.
      + intros m v Hl. cbn [lookup] in Hl.
        destruct (String.eqb m lv) eqn:E1; [apply String.eqb_eq in E1; subst; apply Gp2; exact Hlv_ste|].
        destruct (String.eqb m cin) eqn:E2; [apply String.eqb_eq in E2; subst; apply Gp2; exact Hcin_ste|].
        eapply Gp4a. exact Hl.
      + exact Gp4b.
    - split; [cbn [lookup]; rewrite String.eqb_refl; reflexivity|].
      intros Hc. apply (Gp3 lv Hlv_ste) in Hc. rewrite Fl4 in Hc.
      apply Fl1. apply (proj2 (proj2 Xbd)); [exact (proj2 Hok) | exact Hc].
    - cbn [lookup]. destruct (String.eqb cin lv) eqn:E; [apply String.eqb_eq in E; contradiction|].
      rewrite String.eqb_refl. reflexivity.
    - apply rel_cons_other; [apply rel_cons_other; [exact Fps|]|].
      + eapply Forall_impl; [|exact Hfresh]. intros a Ha E. subst a. apply Ha. exact Hcin_ste.
      + eapply Forall_impl; [|exact Hfresh]. intros a Ha E. subst a. apply Ha. exact Hlv_ste.
  Qed.

  (* ---- the invariant at the start of the loop body *)
  Lemma loop_inv_start : forall L Lb A (i : string) state ps lv sc (ρ1 ρb : env V) stb stf pe0 pe (vj : V) vs,
    inv_on L pe0 sc ρ1 stb -> grows V ρ1 ρb stb stf ->
    NoDup state -> (forall x, In x state -> In x A) -> ~ In i A ->
    (forall x, In x Lb -> ~ In x (i :: state) -> In x L /\ ~ In x A) ->
    rel V ρb (ts_castable stf) (PT V vj) lv ->
    Forall2 (fun n v => rel V ρb (ts_castable stf) (PT V v) n) ps vs ->
    Forall2 (fun x v => plookup V pe x = Some (PT V v)) state vs ->
    (forall x, ~ In x (sunion A [i]) -> plookup V pe x = plookup V pe0 x) ->
    inv_on (i :: state ++ Lb) ((i, PT V vj) :: pe) (bind_all state ps (bind_var i (BV lv) ([] :: sc))) ρb stf.
  Proof.
    intros L Lb A i state ps lv sc ρ1 ρb stb stf pe0 pe vj vs (I1 & I2 & I3) G Hnd HsA HiA HLb Rlv Fps Fst Hunch.
    assert (Hi_state : ~ In i state) by (intro H; apply HiA; apply HsA; exact H).
    assert (Hcase : forall x, In x (i :: state ++ Lb) -> x = i \/ In x state \/ (x <> i /\ ~ In x state /\ In x L /\ ~ In x A)).
    { intros x [Hx|Hx]; [left; symmetry; exact Hx|]. destruct (string_dec x i) as [E|E]; [left; exact E|].
      destruct (in_dec string_dec x state) as [Hs|Hs]; [right; left; exact Hs|].
      apply in_app_or in Hx. destruct Hx as [Hx|Hx]; [contradiction|].
      right. right. destruct (HLb x Hx) as [H1 H2]; [intros [H|H]; [apply E; symmetry; exact H | contradiction]|]. auto. }
    assert (Houter : forall x, x <> i -> ~ In x state -> ~ In x A ->
              plookup V ((i, PT V vj) :: pe) x = plookup V pe0 x /\
              scopes_find x (bind_all state ps (bind_var i (BV lv) ([] :: sc))) = scopes_find x sc).
    { intros x Hxi Hxs HxA. split.
      - cbn [plookup]. destruct (String.eqb x i) eqn:E; [apply String.eqb_eq in E; contradiction|].
        apply Hunch. intro H. apply In_sunion in H. destruct H as [H|[H|[]]]; [contradiction | apply Hxi; symmetry; exact H].
      - rewrite scopes_find_bind_all_notin by exact Hxs. rewrite scopes_find_bind.
        destruct (String.eqb x i) eqn:E; [apply String.eqb_eq in E; contradiction | reflexivity]. }
    split; [|split; [|apply G]].
    - intros x Hx pv Hp. destruct (Hcase x Hx) as [E|[Hs|(Hxi & Hxs & HxL & HxA)]].
      + subst x. cbn [plookup] in Hp. rewrite String.eqb_refl in Hp. inversion Hp; subst pv.
        exists lv. split; [|exact Rlv]. rewrite scopes_find_bind_all_notin by exact Hi_state.
        rewrite scopes_find_bind, String.eqb_refl. reflexivity.
      + destruct (bind_all_bound V _ _ state ps vs (bind_var i (BV lv) ([] :: sc)) Hnd Fst Fps x Hs) as (n & v & Hsc & Hpv & R).
        cbn [plookup] in Hp. destruct (String.eqb x i) eqn:E; [apply String.eqb_eq in E; subst; contradiction|].
        rewrite Hpv in Hp. inversion Hp; subst pv. exists n. split; [exact Hsc | exact R].
      + destruct (Houter x Hxi Hxs HxA) as [Ep Es]. rewrite Ep in Hp. rewrite Es.
        destruct (I1 x HxL pv Hp) as (n & Hn & R). exists n. split; [exact Hn|]. eapply rel_grows; [exact G | exact I3 | exact R].
    - intros x Hx Hp. destruct (Hcase x Hx) as [E|[Hs|(Hxi & Hxs & HxL & HxA)]].
      + subst x. cbn [plookup] in Hp. rewrite String.eqb_refl in Hp. discriminate Hp.
      + destruct (bind_all_bound V _ _ state ps vs (bind_var i (BV lv) ([] :: sc)) Hnd Fst Fps x Hs) as (n & v & Hsc & Hpv & R).
        cbn [plookup] in Hp. destruct (String.eqb x i) eqn:E; [discriminate Hp|]. rewrite Hpv in Hp. discriminate Hp.
      + destruct (Houter x Hxi Hxs HxA) as [Ep Es]. rewrite Ep in Hp. rewrite Es. exact (I2 x HxL Hp).
  Qed.
End S3Loop.

Section S3Iter.
  Variable V : Type.
  Variable sem : string -> string -> list (string * attrv) -> list (option V) -> option (list V).
  Variable truth : V -> option bool.
  Variable trip : V -> option nat.
  Variable of_nat : nat -> V.
  Variable of_bool : bool -> V.
  Variable limit : nat.
  Variable while_limit : nat.
  Variable globals : list (string * lit).
  Variable cic : expr -> option bool.
  Variable afuel : nat.
  Variable inputs : list vname.

  Hypothesis sem_identity : forall v, sem "" "Identity" [] [Some v] = Some [v].
  Hypothesis truth_of_bool : forall b, truth (of_bool b) = Some b.
  Hypothesis cic_sound : forall c b pe v, cic c = Some b -> eval_expr V sem globals pe c = Some v -> ptruth V truth v = Some b.

  Notation penv := (penv V).
  Notation eval_expr := (eval_expr V sem globals).
  Notation eval_graph := (Sem.eval_graph V sem truth trip of_nat of_bool limit).
  Notation runk k := (Sem.run V sem truth trip of_nat of_bool limit (Sem.eval_graph V sem truth trip of_nat of_bool limit k)).
  Notation tr_stmts := (tr_stmts globals cic afuel false inputs).
  Notation exec_block := (exec_block V sem truth trip of_nat while_limit globals).
  Notation exec_stmt1 := (exec_stmt1 V sem truth trip of_nat while_limit globals).
  Notation inv_on := (inv_on V).
  Notation all_PT := (all_PT V).
  Notation tr_loop_body := (tr_loop_body globals cic afuel inputs).
  Notation assign_ok := (assign_ok globals).
  Notation for_iter := (for_iter V sem truth trip of_nat while_limit globals).
  Notation loop_iter := (loop_iter V truth of_nat of_bool).

  (* ---- the iterations: induction on the trip count *)
  Lemma loop_iter_sound : forall k' fu (ρ1 : env V) stb cin stc std i lv ste state ps stf nps body L Lb sc sc_b stg ns0 co sth ro rn sti nlo A pe0 f2,
    inv_on L pe0 sc ρ1 stb ->
    gen_unique "cond_in" stb = Some (cin, stc) -> st_ext stc std -> gen_unique i std = Some (lv, ste) ->
    mapM uniq state ste = Some (ps, stf, nps) ->
    forallb assign_ok body = true ->
    tr_loop_body fu L body (bind_all state ps (bind_var i (BV lv) ([] :: sc))) stf = Some ((sc_b, None), stg, ns0) ->
    gen_unique "cond_out" stg = Some (co, sth) ->
    loop_outputs globals false sc_b state (ns0 ++ [identity cin co]) [co] sth = Some ((ro, rn), sti, nlo) ->
    live_block cic afuel body L = Some Lb ->
    A = assigned_block cic body ->
    NoDup state -> (forall x, In x state -> In x A) -> ~ In i A ->
    (forall x, In x Lb -> ~ In x (i :: state) -> In x L /\ ~ In x A) ->
    (forall x, In x state -> lookup_assoc x globals = None) ->
    forall n j pe vs o,
      Forall2 (fun x v => plookup V pe x = Some (PT V v)) state vs ->
      (forall x, ~ In x (sunion A [i]) -> plookup V pe x = plookup V pe0 x) ->
      all_PT pe ->
      for_iter f2 i body n j pe = Some o ->
      exists pe_n vs_n, o = ONormal V pe_n /\
        loop_iter (eval_graph (S k')) ρ1 (Graph (lv :: cin :: ps) [] rn (co :: ro)) true n j true vs = Some vs_n /\
        Forall2 (fun x v => plookup V pe_n x = Some (PT V v)) state vs_n /\
        (forall x, ~ In x (sunion A [i]) -> plookup V pe_n x = plookup V pe0 x) /\ all_PT pe_n.
  Proof.
    intros k' fu ρ1 stb cin stc std i lv ste state ps stf nps body L Lb sc sc_b stg ns0 co sth ro rn sti nlo A pe0 f2
           Hinv0 Hcin Xcd Hlv Hps Hc Hbody Hco Hlo Hlb EA Hnd HsA HiA HLb Hng.
    induction n as [|n IH]; intros j pe vs o Fst Hunch Hall Hit.
    - cbn [AnalysisProofs.for_iter] in Hit. inversion Hit; subst o. exists pe, vs.
      split; [reflexivity|]. split; [reflexivity|]. split; [exact Fst|]. split; assumption.
    - cbn [AnalysisProofs.for_iter] in Hit.
      destruct (exec_block f2 body ((i, PT V (of_nat j)) :: pe)) as [o_b|] eqn:Eb; [|discriminate].
      destruct f2 as [|f2']; [discriminate Eb|].
      assert (Lvs : List.length vs = List.length ps).
      { rewrite (mapM_uniq_length _ _ _ _ _ Hps). symmetry. eapply Forall2_len. exact Fst. }
      destruct (loop_env V sem truth trip of_nat of_bool limit ρ1 stb cin stc std i lv ste state ps stf nps (of_nat j) (of_bool true) vs
                  (proj2 (proj2 Hinv0)) Hcin Xcd Hlv Hps Lvs) as (ρb & Bb & Gb & Rlv & Lcin & Fps).
      pose proof (loop_inv_start V L Lb A i state ps lv sc ρ1 ρb stb stf pe0 pe (of_nat j) vs
                    Hinv0 Gb Hnd HsA HiA HLb Rlv Fps Fst Hunch) as Hinv_b.
      assert (Hall_b : all_PT ((i, PT V (of_nat j)) :: pe)) by (apply all_PT_cons; [exact Hall | reflexivity]).
      destruct (loop_body_sound V sem truth trip of_nat of_bool limit while_limit globals cic afuel inputs
                  k' fu L body Hc _ stf sc_b None stg ns0 (i :: state ++ Lb) Lb _ ρb f2' o_b Hbody Hlb
                  ltac:(intros y Hy; right; apply in_or_app; right; exact Hy) Hinv_b Hall_b Eb)
        as (pe' & ρ' & M' & -> & _ & R2 & Hinv' & HM & Hall' & G').
      assert (Hcin_used : In cin (ts_used stf)).
      { eapply (proj1 (proj2 (proj2 (proj2 Gb)))). exact Lcin. }
      assert (Lcin' : lookup ρ' cin = Some (of_bool true)).
      { rewrite (proj1 G') by exact Hcin_used. exact Lcin. }
      destruct (identity_copy V sem truth trip of_nat of_bool limit (eval_graph k') sem_identity ρ' stg "cond_out" co sth cin (of_bool true)
                  (proj2 (proj2 Hinv')) Lcin' Hco) as (Rc & Gc).
      destruct (loop_outputs_sound V sem truth trip of_nat of_bool limit globals sem_identity k' state sc_b _ _ sth ro rn sti nlo pe'
                  ((co, of_bool true) :: ρ') M' Hlo (inv_on_grows V _ _ _ _ _ _ _ Hinv' Gc) Hall'
                  ltac:(intros y Hy; apply HM; right; apply in_or_app; left; exact Hy) Hng)
        as (extra & ρ3 & vals & En & R3 & L3 & F3 & G3).
      assert (Hev : eval_graph (S k') ρ1 (Graph (lv :: cin :: ps) [] rn (co :: ro)) (of_nat j :: of_bool true :: vs)
                    = Some (of_bool true :: vals)).
      { cbn [Sem.eval_graph]. unfold eval_body. cbn [g_ins g_nodes g_outs]. rewrite Bb, En, run_app, run_app, R2, Rc, R3.
        cbn [lookups]. rewrite (proj1 G3).
        - cbn [lookup]. rewrite String.eqb_refl, L3. reflexivity.
        - apply gen_unique_fresh in Hco. destruct Hco as (_ & -> & _). left. reflexivity. }
      assert (Lvals : List.length vals = List.length vs).
      { rewrite <- (Forall2_len _ _ _ _ _ F3). eapply Forall2_len. exact Fst. }
      destruct (IH (S j) pe' vals o F3) as (pe_n & vs_n & -> & Hli & Fn & Hun & Halln); [|exact Hall'|exact Hit|].
      + intros x Hx. pose proof (assigned_vars_sound V sem truth trip of_nat while_limit globals cic cic_sound (S f2') body _ _ Eb) as P.
        cbn in P. rewrite P by (intro H; apply Hx; apply In_sunion; left; subst A; exact H).
        cbn [plookup]. destruct (String.eqb x i) eqn:E.
        * apply String.eqb_eq in E. subst x. exfalso. apply Hx. apply In_sunion. right. left. reflexivity.
        * apply Hunch. exact Hx.
      + exists pe_n, vs_n. split; [reflexivity|]. split; [|split; [exact Fn | split; assumption]].
        cbn [Sem.loop_iter negb]. rewrite Hev. rewrite (proj2 (Nat.eqb_eq _ _) Lvals). rewrite truth_of_bool. exact Hli.
  Qed.

  Lemma run_loop_node : forall k (ρ1 ρ2 : env V) b bv n ins names body_g st0 stf,
    lookup ρ1 b = Some bv -> trip bv = Some n -> lookups ρ1 ins = Some st0 ->
    loop_iter (eval_graph k) ρ1 body_g true n 0 true st0 = Some stf ->
    Sem.bind names stf ρ1 = Some ρ2 ->
    runk k ρ1 [Node "" "Loop" (Some b :: None :: map Some ins) names [] [("body", body_g)]] = Some ρ2.
  Proof.
    intros k ρ1 ρ2 b bv n ins names body_g st0 stf Hl Ht Hls Hit Hb.
    cbn [Sem.run Sem.eval_node]. change (is_if "" "Loop") with false. change (is_loop "" "Loop") with true. cbv iota.
    change (find_sub "body" [("body", body_g)]) with (Some body_g). cbv iota.
    cbn [lookup_opts option_map]. rewrite Hl. cbn [option_map]. rewrite present_map_some, Hls, Ht. cbn [option_map].
    rewrite Hit, Hb. reflexivity.
  Qed.
End S3Iter.

Section S3Stmt.
  Variable V : Type.
  Variable sem : string -> string -> list (string * attrv) -> list (option V) -> option (list V).
  Variable truth : V -> option bool.
  Variable trip : V -> option nat.
  Variable of_nat : nat -> V.
  Variable of_bool : bool -> V.
  Variable limit : nat.
  Variable while_limit : nat.
  Variable globals : list (string * lit).
  Variable cic : expr -> option bool.
  Variable afuel : nat.
  Variable inputs : list vname.

  Hypothesis sem_identity : forall v, sem "" "Identity" [] [Some v] = Some [v].
  Hypothesis truth_of_bool : forall b, truth (of_bool b) = Some b.
  Hypothesis cic_sound : forall c b pe v, cic c = Some b -> eval_expr V sem globals pe c = Some v -> ptruth V truth v = Some b.

  Notation penv := (penv V).
  Notation eval_expr := (eval_expr V sem globals).
  Notation eval_graph := (Sem.eval_graph V sem truth trip of_nat of_bool limit).
  Notation runk k := (Sem.run V sem truth trip of_nat of_bool limit (Sem.eval_graph V sem truth trip of_nat of_bool limit k)).
  Notation tr_stmts := (tr_stmts globals cic afuel false inputs).
  Notation exec_block := (exec_block V sem truth trip of_nat while_limit globals).
  Notation exec_stmt1 := (exec_stmt1 V sem truth trip of_nat while_limit globals).
  Notation inv_on := (inv_on V).
  Notation all_PT := (all_PT V).
  Notation tr_loop_body := (tr_loop_body globals cic afuel inputs).
  Notation assign_ok := (assign_ok globals).
  Notation for_iter := (for_iter V sem truth trip of_nat while_limit globals).
  Notation loop_iter := (loop_iter V truth of_nat of_bool).
  Notation loop_ok := (loop_ok globals cic afuel).
  Notation s2_stmt := (s2_stmt globals cic).

  (* the loop state is bound before the loop: its initial values *)
  Lemma mapM_py_var_bound : forall xs L pe sc (ρ : env V) st0 st ins st' ns,
    inv_on L pe sc ρ st0 -> all_PT pe -> incl xs L -> (forall x, In x xs -> lookup_assoc x globals = None) ->
    mapM (py_var globals sc) xs st = Some (ins, st', ns) ->
    st' = st /\ ns = [] /\ exists vs, lookups ρ ins = Some vs /\ Forall2 (fun x v => plookup V pe x = Some (PT V v)) xs vs.
  Proof.
    induction xs as [|x t IH]; intros L pe sc ρ st0 st ins st' ns Hinv Hall Hin Hng H; cbn [mapM] in H.
    - apply ret_some in H. destruct H as (-> & -> & ->). split; [reflexivity|]. split; [reflexivity|]. exists []. split; [reflexivity | constructor].
    - apply bind_some in H. destruct H as (n & st1 & n1 & n2 & Hx & H & ->).
      apply bind_some in H. destruct H as (ns' & st2 & n3 & n4 & Ht & Hr & ->).
      apply ret_some in Hr. destruct Hr as (-> & -> & ->).
      unfold py_var in Hx. destruct (scopes_find x sc) as [b|] eqn:Es.
      2:{ rewrite (Hng x (or_introl eq_refl)) in Hx. discriminate Hx. }
      destruct (inv_on_bound V L pe sc ρ st0 x b Hinv Hall (Hin x (or_introl eq_refl)) Es) as (m & v & -> & Hp & Hl & _).
      cbn [to_onnx_var] in Hx. apply ret_some in Hx. destruct Hx as (-> & -> & ->).
      destruct (IH L pe sc ρ st0 st ns' st2 n3 Hinv Hall) as (-> & -> & vs & Hls & F); try assumption.
      + intros y Hy. apply Hin. right. exact Hy.
      + intros y Hy. apply Hng. right. exact Hy.
      + split; [reflexivity|]. split; [reflexivity|]. exists (v :: vs). split; [cbn [lookups]; rewrite Hl, Hls; reflexivity|].
        constructor; assumption.
  Qed.

  Lemma quiet_mapM : forall A B (f : A -> M B) l, (forall a, quiet (f a)) -> quiet (mapM f l).
  Proof.
    intros A B f l Hf. induction l as [|a t IH]; cbn [mapM]; [apply quiet_ret|].
    apply quiet_bind; [apply Hf|]. intros b. apply quiet_bind; [exact IH|]. intros bs. apply quiet_ret.
  Qed.

  Lemma In_forallb : forall A (f : A -> bool) l, forallb f l = true -> forall x, In x l -> f x = true.
  Proof. intros A f l H. rewrite forallb_forall in H. exact H. Qed.

  (* ---- a `for` statement of the class, followed by the rest of its block *)
  Lemma for_step : forall fu k, 1 <= k ->
    forall i bound body rest top lo sc outs st res st' nodes pe ρ f2 o L lo_s,
    live_block cic afuel rest lo = Some lo_s ->
    loop_ok i bound body lo_s = true ->
    tr_stmts (S fu) top (SFor i bound body :: rest) lo sc outs st = Some (res, st', nodes) ->
    live_block cic afuel (SFor i bound body :: rest) lo = Some L ->
    inv_on L pe sc ρ st -> all_PT pe ->
    exec_block (S f2) (SFor i bound body :: rest) pe = Some o ->
    exists sc1 st1 n1 n2 pe1 ρ1,
      nodes = n1 ++ n2 /\
      tr_stmts (S fu) top rest lo sc1 outs st1 = Some (res, st', n2) /\
      runk k ρ n1 = Some ρ1 /\ inv_on lo_s pe1 sc1 ρ1 st1 /\ all_PT pe1 /\ grows V ρ ρ1 st st1 /\
      exec_block (S f2) rest pe1 = Some o.
  Proof.
    intros fu k Hk i bound body rest top lo sc outs st res st' nodes pe ρ f2 o L lo_s El Hok Htr Hl Hinv Hall Hex.
    destruct k as [|k']; [lia|]. clear Hk.
    rewrite live_block_cons, El in Hl.
    (* the side conditions *)
    unfold TranslateForDefs.loop_ok in Hok. rewrite Hl in Hok.
    apply andb_true_iff in Hok. destruct Hok as [Hok Hside]. apply andb_true_iff in Hok. destruct Hok as [Hrb Hbody_ok].
    apply andb_true_iff in Hrb. destruct Hrb as [Hfixok Hrb].
    pose proof (fix_ok_spec cic afuel i bound body lo_s L Hfixok Hl) as Hfixeq.
    destruct (live_block cic afuel body L) as [Lb|] eqn:Elb; [|discriminate Hside].
    set (A := assigned_block cic body) in *. set (S0 := sinter A (sunion (exposed_uses cic body) lo_s)) in *.
    cbv zeta in Hside.
    apply andb_true_iff in Hside. destruct Hside as [Hside C7]. apply andb_true_iff in Hside. destruct Hside as [Hside C6].
    apply andb_true_iff in Hside. destruct Hside as [Hside C5]. apply andb_true_iff in Hside. destruct Hside as [Hside C4].
    apply andb_true_iff in Hside. destruct Hside as [Hside C3]. apply andb_true_iff in Hside. destruct Hside as [C1 C2].
    apply negb_true_iff in C5. apply negb_true_iff in C6.
    pose proof (mem_false_not_In _ _ C5) as Hi_lo. pose proof (mem_false_not_In _ _ C6) as Hi_A.
    (* the translation *)
    rewrite tr_stmts_for in Htr.
    apply bind_some in Htr. destruct Htr as (lo_s' & st0 & n0 & n0' & Hlift & Htr & ->).
    apply lift_some in Hlift. destruct Hlift as (E0 & -> & ->). rewrite El in E0. inversion E0; subst lo_s'. clear E0.
    apply bind_some in Htr. destruct Htr as ([sc1 outs1] & st1 & n1 & n2 & Hfor & Htr & ->). cbn [fst snd] in Htr.
    apply bind_some in Hfor. destruct Hfor as (hdr & stH & nh & nh' & Hhdr & Hfor & ->).
    apply bind_some in Hhdr. destruct Hhdr as (b & stb & nb & nb' & Hb & Hhdr & ->).
    apply bind_some in Hhdr. destruct Hhdr as (cin & stc & nc & nc' & Hcin & Hret & ->).
    apply uniq_some in Hcin. destruct Hcin as (Hcin & ->).
    apply ret_some in Hret. destruct Hret as (-> & -> & ->).
    cbv beta iota zeta in Hfor.
    apply bind_some in Hfor. destruct Hfor as (state & std & ns1 & ns1' & Hls & Hfor & ->).
    pose proof (mono_list_set _ _ _ _ _ Hls) as Xcd.
    apply list_set_some in Hls. destruct Hls as (_ & _ & -> & Hnd & Hmem). fold A in Hmem. fold S0 in Hmem.
    apply bind_some in Hfor. destruct Hfor as (u1 & st_g & ng & ng' & Hg & Hfor & ->).
    apply guard_some in Hg. destruct Hg as (_ & -> & ->).
    apply bind_some in Hfor. destruct Hfor as (lo_body & st_l & nl & nl' & Hlb & Hfor & ->).
    apply lift_some in Hlb. destruct Hlb as (Efix & -> & ->).
    rewrite Hfixeq in Efix. inversion Efix; subst lo_body. clear Efix.
    apply bind_some in Hfor. destruct Hfor as (lv & ste & nlv & nlv' & Hlv & Hfor & ->).
    apply uniq_some in Hlv. destruct Hlv as (Hlv & ->).
    apply bind_some in Hfor. destruct Hfor as (ps & stf & nps & nps' & Hps & Hfor & ->).
    apply bind_some in Hfor. destruct Hfor as (r & stg & nr & nr' & Hcap & Hfor & ->).
    apply capture_some in Hcap. destruct Hcap as ([sc_b brk] & ns0 & Hbody & -> & ->). cbn [fst snd] in Hfor.
    pose proof (loop_body_nobreak _ _ _ _ _ _ _ _ _ _ _ _ _ Hbody_ok Hbody) as ->.
    apply bind_some in Hfor. destruct Hfor as (wc & st_w & nw & nw' & Hwc & Hfor & ->).
    apply ret_some in Hwc. destruct Hwc as (-> & -> & ->).
    apply bind_some in Hfor. destruct Hfor as (cn & sth & ncn & ncn' & Hcn & Hfor & ->).
    apply capture_some in Hcn. destruct Hcn as (co & ncond & Hcond & -> & ->). cbn [fst snd] in Hfor.
    unfold identity, node1 in Hcond. apply finish_inv in Hcond. destruct Hcond as (Hco & ->).
    apply bind_some in Hfor. destruct Hfor as ([ro rn] & sti & nlo & nlo' & Hlo & Hfor & ->). cbn [fst snd] in Hfor.
    pose proof (quiet_loop_outputs _ _ _ _ _ _ _ _ _ _ Hlo) as Enlo.
    apply bind_some in Hfor. destruct Hfor as (ins & stj & nins & nins' & Hins & Hfor & ->).
    apply bind_some in Hfor. destruct Hfor as (so & st_so & nso & nso' & Hso & Hfor & ->).
    apply ret_some in Hso. destruct Hso as (-> & -> & ->).
    apply bind_some in Hfor. destruct Hfor as (names & stk & nnm & nnm' & Hnm & Hfor & ->).
    apply bind_some in Hfor. destruct Hfor as (u2 & st_e & ne & ne' & Hem & Hret2 & ->).
    apply emit_some in Hem. destruct Hem as (-> & ->).
    apply ret_some in Hret2. destruct Hret2 as (E2 & -> & ->). inversion E2; subst sc1 outs1. clear E2.
    (* the Python side *)
    rewrite exec_block_cons in Hex.
    destruct (AnalysisProofs.exec_stmt1 V sem truth trip of_nat while_limit globals f2 (SFor i bound body) pe) as [o1|] eqn:Es; [|discriminate].
    cbn [AnalysisProofs.exec_stmt1] in Es.
    destruct (eval_expr pe bound) as [vb|] eqn:Eb; [|discriminate].
    pose proof (rhs_tensor V sem globals bound pe vb Hrb Hall Eb) as Hvb. destruct vb as [bv|lb cb]; [|discriminate Hvb].
    cbn [ptrip] in Es. destruct (trip bv) as [n|] eqn:Etrip; [|discriminate].
    (* the bound *)
    assert (Hokb : expr_ok bound = true). { unfold rhs_ok in Hrb. apply andb_true_iff in Hrb. apply Hrb. }
    destruct (tr_expr_sound_on V sem truth trip of_nat of_bool limit globals (eval_graph (S k')) bound L sc (Some "loop_bound") st b stb nb pe ρ (PT V bv)
                Hokb (In_ssubset _ _ C1) Hb Hinv Eb) as (ρ1 & Rb & Rbv & Gb).
    destruct Rbv as [Lb_b _].
    pose proof (inv_on_grows V _ _ _ _ _ _ _ Hinv Gb) as Hinv1.
    (* facts about the state *)
    assert (HsA : forall x, In x state -> In x A).
    { intros x Hx. apply Hmem in Hx. apply In_sinter in Hx. apply Hx. }
    assert (HsL : incl state L).
    { intros x Hx. apply (In_ssubset _ _ C2). apply Hmem. exact Hx. }
    assert (Hng : forall x, In x state -> lookup_assoc x globals = None).
    { intros x Hx. apply Hmem in Hx. pose proof (In_forallb _ _ _ C7 x Hx) as H. cbv beta in H. destruct (lookup_assoc x globals); [discriminate H | reflexivity]. }
    assert (HLb : forall x, In x Lb -> ~ In x (i :: state) -> In x L /\ ~ In x A).
    { intros x Hx Hn. assert (H : In x (sdiff L A)).
      { apply (In_ssubset _ _ C3). apply In_sdiff. split; [exact Hx|]. intros [E|H]; [apply Hn; left; exact E|].
        apply Hn. right. apply Hmem. exact H. }
      apply In_sdiff in H. exact H. }
    (* initial values of the state *)
    destruct (mapM_py_var_bound state L pe sc ρ1 stb sti ins stj nins Hinv1 Hall HsL Hng Hins) as (-> & -> & vs0 & Hls0 & F0).
    (* the iterations *)
    destruct (loop_iter_sound V sem truth trip of_nat of_bool limit while_limit globals cic afuel inputs sem_identity truth_of_bool cic_sound
                k' fu ρ1 stb cin stc std i lv ste state ps stf nps body L Lb sc sc_b stg ns0 co sth ro rn sti nlo A pe f2
                Hinv1 Hcin Xcd Hlv Hps Hbody_ok Hbody Hco Hlo Elb eq_refl Hnd HsA Hi_A HLb Hng
                n 0 pe vs0 o1 F0 (fun x _ => eq_refl) Hall Es) as (pe_n & vs_n & -> & Hli & Fn & Hun & Halln).
    (* after the loop *)
    assert (Xbi : st_ext stb sti).
    { eapply st_ext_trans; [eapply st_ext_unique; exact Hcin|]. eapply st_ext_trans; [exact Xcd|].
      eapply st_ext_trans; [eapply st_ext_unique; exact Hlv|].
      eapply st_ext_trans; [eapply mono_mapM; [intros a; apply mono_uniq | exact Hps]|].
      eapply st_ext_trans; [eapply mono_tr_loop_body; [exact Hbody_ok | exact Hbody]|].
      eapply st_ext_trans; [eapply st_ext_unique; exact Hco|]. eapply mono_loop_outputs. exact Hlo. }
    destruct (if_join V sem truth trip of_nat of_bool limit L lo_s (sunion A [i]) pe sc ρ ρ1 st stb sti stk state names nnm pe_n vs_n
                Hinv Gb Xbi Hnm Hnd) as (-> & ρ2 & B2 & Hinv2 & G2); [| |exact Hun|exact Fn|].
    { intros x Hx HA. apply In_sunion in HA. destruct HA as [HA|[E|[]]]; [|subst x; contradiction].
      apply Hmem. apply In_sinter. split; [exact HA|]. apply In_sunion. right. exact Hx. }
    { intros x Hx HnA. apply (In_ssubset _ _ C4). apply In_sdiff. split; [exact Hx|]. intros [E|H].
      - apply HnA. apply In_sunion. right. left. exact E.
      - apply HnA. apply In_sunion. left. unfold S0 in H. apply In_sinter in H. apply H. }
    exists (bind_all state names sc), stk, (nb ++ [Node "" "Loop" (Some b :: None :: map Some ins) names [] [("body", Graph (lv :: cin :: ps) [] rn (co :: ro))]]), n2, pe_n, ρ2.
    split; [|split; [exact Htr|split; [|split; [exact Hinv2|split; [exact Halln|split; [exact G2 | exact Hex]]]]]].
    - subst nlo. rewrite (quiet_mapM _ _ uniq state quiet_uniq _ _ _ _ Hps). cbn [app]. rewrite ?app_nil_r. repeat rewrite <- app_assoc. cbn [app]. reflexivity.
    - rewrite run_app, Rb. eapply run_loop_node; eassumption.
  Qed.

  (* ---- bodies: statements of the S2 class and `for` loops of the class above (at top level), then one return *)

  Fixpoint s3_pre (pre tl : list stmt) (lo : sset) : bool :=
    match pre with
    | [] => true
    | s :: rest =>
      match live_block cic afuel (rest ++ tl) lo with
      | None => false
      | Some lo_s =>
        match s with SFor i b body => loop_ok i b body lo_s | _ => s2_stmt s end && s3_pre rest tl lo
      end
    end.

  Lemma body_live3 : forall pre es lo, s3_pre pre [SReturn es] lo = true -> exists L, live_block cic afuel (pre ++ [SReturn es]) lo = Some L.
  Proof.
    induction pre as [|s r IH]; intros es lo Hc.
    - eexists. cbn [app]. rewrite live_block_cons, live_block_nil. apply live_return.
    - cbn [s3_pre] in Hc. cbn [app]. rewrite live_block_cons.
      destruct (live_block cic afuel (r ++ [SReturn es]) lo) as [lo_s|]; [|discriminate].
      apply andb_true_iff in Hc. destruct Hc as [Hs Hr].
      destruct s as [x e|xs e|c t f|i b body|c body| |es']; try apply (live_defined_all globals cic afuel _ Hs).
      unfold TranslateForDefs.loop_ok in Hs. destruct (live_stmt cic afuel (SFor i b body) lo_s) as [L|]; [eexists; reflexivity|].
      rewrite andb_false_r in Hs. discriminate Hs.
  Qed.

  Lemma body_sound3 : forall fu k, 1 <= k -> fu <= k -> forall pre es, forallb expr_ok es = true ->
    forall lo sc outs st sc' outs' st' nodes pe ρ f2 vs vs0 L,
    s3_pre pre [SReturn es] lo = true ->
    tr_stmts (S fu) true (pre ++ [SReturn es]) lo sc outs st = Some ((sc', outs'), st', nodes) ->
    live_block cic afuel (pre ++ [SReturn es]) lo = Some L ->
    inv_on L pe sc ρ st -> all_PT pe ->
    exec_block (S f2) (pre ++ [SReturn es]) pe = Some (OReturn V vs) ->
    lookups ρ outs = Some vs0 ->
    exists ρ', runk k ρ nodes = Some ρ' /\ lookups ρ' outs' = Some (vs0 ++ vs).
  Proof.
    intros fu k Hk1 Hk. induction pre as [|s rest IH]; intros es Hes lo sc outs st sc' outs' st' nodes pe ρ f2 vs vs0 L Hpre Htr Hl Hinv Hall Hex Hlk.
    - eapply (body_sound V sem truth trip of_nat of_bool limit while_limit globals cic afuel inputs sem_identity cic_sound fu k Hk [] eq_refl es Hes);
        eassumption.
    - cbn [s3_pre] in Hpre. cbn [app] in *.
      destruct (live_block cic afuel (rest ++ [SReturn es]) lo) as [lo_s|] eqn:El; [|discriminate].
      apply andb_true_iff in Hpre. destruct Hpre as [Hs Hr].
      assert (Hstep : exists sc1 st1 n1 n2 pe1 ρ1,
                nodes = n1 ++ n2 /\
                tr_stmts (S fu) true (rest ++ [SReturn es]) lo sc1 outs st1 = Some ((sc', outs'), st', n2) /\
                runk k ρ n1 = Some ρ1 /\ inv_on lo_s pe1 sc1 ρ1 st1 /\ all_PT pe1 /\ grows V ρ ρ1 st st1 /\
                exec_block (S f2) (rest ++ [SReturn es]) pe1 = Some (OReturn V vs)).
      { destruct s as [x e|xs e|c t f|i b body|c body| |es'];
          try (destruct (stmt_step V sem truth trip of_nat of_bool limit while_limit globals cic afuel inputs sem_identity cic_sound
                           fu k (blocks_ok_all V sem truth trip of_nat of_bool limit while_limit globals cic afuel inputs sem_identity cic_sound fu) Hk
                           _ (rest ++ [SReturn es]) true lo sc outs st (sc', outs') st' nodes pe ρ f2 _ L Hs Htr Hl Hinv Hall Hex)
                 as (lo_s' & sc1 & st1 & n1 & n2 & pe1 & ρ1 & -> & El' & Htr1 & R1 & Hinv1 & Hall1 & G1 & Hex1);
               rewrite El in El'; inversion El'; subst lo_s';
               exists sc1, st1, n1, n2, pe1, ρ1; repeat (split; [first [reflexivity | assumption]|]); exact Hex1).
        eapply for_step; eassumption. }
      destruct Hstep as (sc1 & st1 & n1 & n2 & pe1 & ρ1 & -> & Htr1 & R1 & Hinv1 & Hall1 & G1 & Hex1).
      destruct (IH es Hes lo sc1 outs st1 sc' outs' st' n2 pe1 ρ1 f2 vs vs0 lo_s Hr Htr1 El Hinv1 Hall1 Hex1
                  (lookups_grows V _ _ _ _ _ _ (proj2 (proj2 Hinv)) G1 Hlk)) as (ρ2 & R2 & L2).
      exists ρ2. split; [rewrite run_app, R1; exact R2 | exact L2].
  Qed.
End S3Stmt.

(* ------------------------------------------------------------------ S3 (for loops at top level): the theorem *)

Section S3Final.
  Variable V : Type.
  Variable sem : string -> string -> list (string * attrv) -> list (option V) -> option (list V).
  Variable truth : V -> option bool.
  Variable trip : V -> option nat.
  Variable of_nat : nat -> V.
  Variable of_bool : bool -> V.
  Variable limit : nat.
  Variable while_limit : nat.
  Variable globals : list (string * lit).
  Hypothesis sem_identity : forall v, sem "" "Identity" [] [Some v] = Some [v].
  Hypothesis truth_of_bool : forall b, truth (of_bool b) = Some b.

  Theorem translate_forloop_correct : forall cic afuel orders f g xs vs fuel2 k pre es,
    (forall c b pe v, cic c = Some b -> eval_expr V sem globals pe c = Some v -> ptruth V truth v = Some b) ->
    f_body f = pre ++ [SReturn es] -> s3_pre globals cic afuel pre [SReturn es] [] = true -> forallb expr_ok es = true ->
    f_aparams f = [] -> NoDup (f_tparams f) ->
    translate false globals cic afuel orders f = Some g ->
    eval_script V sem truth trip of_nat while_limit globals (S fuel2) f xs = Some vs ->
    stmt_depth_fuel <= S k ->
    eval_graph V sem truth trip of_nat of_bool limit (S k) [] g xs = Some vs.
  Proof.
    intros cic afuel orders f g xs vs fuel2 k pre es Hcic Hbody Hpre Hes Hap Hnd Htr Hev Hk.
    rewrite translate_eq, Hbody in Htr.
    destruct (Translate.tr_stmts globals cic afuel false (f_tparams f) (S 11) true (pre ++ [SReturn es]) [] [rev (init_scope f)] [] (init_state f orders))
      as [[[[sc' outs] st'] nodes]|] eqn:Et; [|discriminate]. inversion Htr; subst g. clear Htr.
    unfold eval_script in Hev. rewrite Hbody in Hev.
    destruct (pbind V (f_tparams f) xs []) as [pe0|] eqn:Ep; [|discriminate].
    destruct (PySem.exec_block V sem truth trip of_nat while_limit globals (S fuel2) (pre ++ [SReturn es]) pe0) as [[e1|e1|rv]|] eqn:Ex; try discriminate.
    inversion Hev; subst rv. clear Hev.
    destruct (init_inv V f orders xs pe0 Hap Hnd Ep) as (ρ0 & B & Hinv).
    destruct (body_live3 globals cic afuel pre es [] Hpre) as (L & El).
    unfold stmt_depth_fuel in Hk.
    destruct (body_sound3 V sem truth trip of_nat of_bool limit while_limit globals cic afuel (f_tparams f) sem_identity truth_of_bool Hcic
                11 k ltac:(lia) ltac:(lia) pre es Hes [] _ [] _ sc' outs st' nodes pe0 ρ0 fuel2 vs [] L Hpre Et El
                (inv_inv_on V L _ _ _ _ Hinv) (pbind_all_PT V _ _ _ Ep) Ex eq_refl) as (ρ1 & R1 & L1).
    cbn [eval_graph]. unfold eval_body. cbn [g_ins g_nodes g_outs]. rewrite B, R1. exact L1.
  Qed.
End S3Final.
