"""Printers from real ONNX protos to Coq literals of OV.Graph.Syntax (graph / node / attrv).

Used by the verified-checker ties (wf_graphb etc. evaluated inside Coq on what the implementation
really produced) and by correspondence checks that compare graph skeletons.

    graph_lit(graph_proto)            -> Coq term of type `graph`
    function_lit(function_proto)      -> Coq term of type `graph` (inputs, no initializers)
    imports_lit(opset_imports)        -> Coq `list string` of imported domains
    model_funs_lit(model_proto)       -> Coq `list (list string * graph)`: imports and body of every model-local function
    wf_eval_body(named_terms)         -> Coq text evaluating wf_graphb on each term; parse with parse_bool_list
"""
from __future__ import annotations

import hashlib
import struct

import onnx

from harness.common import clist, cstr, cz


def _f32_bits(x: float) -> int:
    try:
        return struct.unpack("<I", struct.pack("<f", x))[0]
    except OverflowError:
        return struct.unpack("<I", struct.pack("<f", float("inf") if x > 0 else float("-inf")))[0]


def attr_lit(a: onnx.AttributeProto):
    """Return (kind, text): kind 'attr' -> attrv term; kind 'graph' -> graph term; 'graphs' -> list of graph terms."""
    T = onnx.AttributeProto
    if a.ref_attr_name:
        return "attr", f"(ARef {cstr(a.ref_attr_name)})"
    if a.type == T.INT:
        return "attr", f"(AInt {cz(a.i)})"
    if a.type == T.INTS:
        return "attr", f"(AInts {clist(a.ints, cz)})"
    if a.type == T.STRING:
        return "attr", f"(AStr {cstr(a.s.decode('utf-8', 'replace'))})"
    if a.type == T.STRINGS:
        return "attr", f"(AStrs {clist([s.decode('utf-8', 'replace') for s in a.strings], cstr)})"
    if a.type == T.FLOAT:
        return "attr", f"(AFloat {cz(_f32_bits(a.f))})"
    if a.type == T.FLOATS:
        return "attr", f"(AFloats {clist([_f32_bits(f) for f in a.floats], cz)})"
    if a.type == T.TENSOR:
        t = a.t
        raw = onnx.numpy_helper.to_array(t).tobytes() if t.data_type != onnx.TensorProto.STRING else b"".join(t.string_data)
        if len(raw) <= 64:
            payload = clist(list(raw), cz)
        else:
            payload = clist(list(hashlib.sha1(raw).digest()), cz)
        return "attr", f"(ATensor {cz(t.data_type)} {clist(t.dims, cz)} {payload})"
    if a.type == T.GRAPH:
        return "graph", graph_lit(a.g)
    if a.type == T.GRAPHS:
        return "graphs", [graph_lit(g) for g in a.graphs]
    return "attr", f"(AOther {cstr(hashlib.sha1(a.SerializeToString(deterministic=True)).hexdigest()[:16])})"


def node_lit(n: onnx.NodeProto) -> str:
    ins = clist(n.input, lambda x: "None" if x == "" else f"(Some {cstr(x)})")
    outs = clist([o for o in n.output if o != ""], cstr)
    attrs, subs = [], []
    for a in n.attribute:
        kind, txt = attr_lit(a)
        if kind == "attr":
            attrs.append(f"({cstr(a.name)}, {txt})")
        elif kind == "graph":
            subs.append(f"({cstr(a.name)}, {txt})")
        else:
            for i, g in enumerate(txt):
                subs.append(f"({cstr(a.name + '#' + str(i))}, {g})")
    return f"(Node {cstr(n.domain if n.domain != 'ai.onnx' else '')} {cstr(n.op_type)} {ins} {outs} {clist(attrs)} {clist(subs)})"


def graph_lit(g: onnx.GraphProto) -> str:
    ins = clist([i.name for i in g.input], cstr)
    inits = clist([i.name for i in g.initializer] + [i.values.name for i in g.sparse_initializer], cstr)
    nodes = clist([node_lit(n) for n in g.node])
    outs = clist([o.name for o in g.output], cstr)
    return f"(Graph {ins} {inits} {nodes} {outs})"


def function_lit(f: onnx.FunctionProto) -> str:
    ins = clist(list(f.input), cstr)
    nodes = clist([node_lit(n) for n in f.node])
    outs = clist(list(f.output), cstr)
    return f"(Graph {ins} [] {nodes} {outs})"


def imports_lit(opset_imports) -> str:
    return clist([("" if o.domain == "ai.onnx" else o.domain) for o in opset_imports], cstr)


def model_funs_lit(m: onnx.ModelProto) -> str:
    """The model-local functions as a Coq `list mfun` (OV.Graph.ModelImports): (opset imports of the function, its body)."""
    return clist([f"({imports_lit(f.opset_import)}, {function_lit(f)})" for f in m.functions])


REQUIRES = ["OV.Graph.Syntax", "OV.Graph.Wf"]


def wf_eval_body(terms, extra=""):
    """terms: list of Coq graph terms. Emits one Eval printing the list of indices whose wf_graphb is false."""
    defs = "\n".join(f"Definition g{i} : graph := {t}." for i, t in enumerate(terms))
    lst = clist([f"g{i}" for i in range(len(terms))])
    return (defs + "\nFixpoint failing (i : nat) (l : list graph) : list nat := match l with [] => [] | g :: t => "
            "(if wf_graphb g then [] else [i]) ++ failing (S i) t end.\n"
            f"Eval vm_compute in (failing 0 {lst}).\n" + extra)
