(* Model of onnx_ir.passes.common.common_subexpression_elimination.CommonSubexpressionEliminationPass, the
   pass optimize_ir runs after lifting constants and de-duplicating initializers (C03 / C04).

   The pass walks the nodes of the MAIN graph only (nested graphs are not visited), first to last.  A node is skipped (neither
   merged nor remembered) when it has a graph attribute, a tensor attribute with more than size_limit = 10 elements, or is one
   of the five random operators of the default domain.  Otherwise its key is
        (domain, op_type, number of outputs, identities of the input values, attributes as a name-sorted tuple)
   and a later node with a key EQUAL IN PYTHON to that of an earlier node is removed; every use of its outputs (in any nested
   graph too) is redirected to the outputs of the earlier node.  When a removed output is a graph output, the graph output is
   kept under its name: the earlier value is renamed to it, or - when the earlier value is itself a graph input / output - an
   Identity node producing the old name is inserted.

   Python equality of the keys is NOT equality of the attributes: float attributes compare numerically, so 0.0 == -0.0 (equal
   keys, different attributes) while NaN never equals NaN (`py_attr_eqb`).  Names stand for value identities (faithful on
   models with unique value names).  A single walk that keeps a dictionary is the same as repeating "merge the first node that
   has an earlier twin" (`cse_step`) until nothing changes: uses are only redirected in nodes after the removed one.
   No proofs in this file. *)
From Coq Require Import List String ZArith Bool.
Require Import OV.Graph.Syntax OV.Graph.Names OV.Opt.Dce.
Import ListNotations.
Local Open Scope string_scope.

Definition size_limit : Z := 10.
Definition nondet_ops : list string := ["RandomUniform"; "RandomNormal"; "RandomUniformLike"; "RandomNormalLike"; "Multinomial"].

Definition prod_dims (l : list Z) : Z := fold_right Z.mul 1%Z l.
Definition attr_large (a : attrv) : bool := match a with ATensor _ dims _ => Z.ltb size_limit (prod_dims dims) | _ => false end.
Definition attr_unmodelled (a : attrv) : bool :=         (* string tensors are keyed by object addresses; opaque attribute kinds *)
  match a with ATensor dt _ _ => Z.eqb dt 8 | AOther _ => true | _ => false end.

Definition eligible (n : node) : bool :=
  match n_subs n with [] => true | _ => false end &&
  negb (existsb (fun kv => attr_large (snd kv)) (n_attrs n)) &&
  negb (String.eqb (n_dom n) "" && mem (n_op n) nondet_ops).

(* IEEE single bit patterns: NaN, and +0 / -0 *)
Definition f32_nan (b : Z) : bool := Z.eqb (Z.land b 2139095040) 2139095040 && negb (Z.eqb (Z.land b 8388607) 0).
Definition f32_zero (b : Z) : bool := Z.eqb (Z.land b 2147483647) 0.
Definition py_float_eqb (a b : Z) : bool := negb (f32_nan a) && negb (f32_nan b) && (Z.eqb a b || (f32_zero a && f32_zero b)).

Fixpoint list_eqb {A} (f : A -> A -> bool) (a b : list A) : bool :=
  match a, b with
  | [], [] => true
  | x :: s, y :: t => f x y && list_eqb f s t
  | _, _ => false
  end.

(* `==` of the values the pass puts into its key *)
Definition py_attr_eqb (a b : attrv) : bool :=
  match a, b with
  | AInt x, AInt y => Z.eqb x y
  | AInts x, AInts y => list_eqb Z.eqb x y
  | AStr x, AStr y => String.eqb x y
  | AStrs x, AStrs y => list_eqb String.eqb x y
  | AFloat x, AFloat y => py_float_eqb x y
  | AFloats x, AFloats y => list_eqb py_float_eqb x y
  | ATensor d s p, ATensor d' s' p' => Z.eqb d d' && list_eqb Z.eqb s s' && list_eqb Z.eqb p p'
  | ARef x, ARef y => String.eqb x y
  | _, _ => false
  end.
(* syntactic equality *)
Definition attr_eqb (a b : attrv) : bool :=
  match a, b with
  | AInt x, AInt y => Z.eqb x y
  | AInts x, AInts y => list_eqb Z.eqb x y
  | AStr x, AStr y => String.eqb x y
  | AStrs x, AStrs y => list_eqb String.eqb x y
  | AFloat x, AFloat y => Z.eqb x y
  | AFloats x, AFloats y => list_eqb Z.eqb x y
  | ATensor d s p, ATensor d' s' p' => Z.eqb d d' && list_eqb Z.eqb s s' && list_eqb Z.eqb p p'
  | ARef x, ARef y => String.eqb x y
  | AOther x, AOther y => String.eqb x y
  | _, _ => false
  end.

Fixpoint assoc_attr (k : string) (l : list (string * attrv)) : option attrv :=
  match l with [] => None | (x, v) :: t => if String.eqb k x then Some v else assoc_attr k t end.
(* name-sorted tuples of a dict: equal iff same names with equal values *)
Definition attrs_sub (f : attrv -> attrv -> bool) (a b : list (string * attrv)) : bool :=
  forallb (fun kx => match assoc_attr (fst kx) b with Some y => f (snd kx) y | None => false end) a.
Definition py_attrs_eqb (a b : list (string * attrv)) : bool :=
  Nat.eqb (List.length a) (List.length b) && attrs_sub py_attr_eqb a b && attrs_sub py_attr_eqb b a.

Definition oname_eqb (a b : option vname) : bool :=
  match a, b with Some x, Some y => String.eqb x y | None, None => true | _, _ => false end.

Definition key_eqb (a b : node) : bool :=
  String.eqb (n_dom a) (n_dom b) && String.eqb (n_op a) (n_op b) &&
  Nat.eqb (List.length (n_outs a)) (List.length (n_outs b)) &&
  list_eqb oname_eqb (n_ins a) (n_ins b) && py_attrs_eqb (n_attrs a) (n_attrs b).

(* the earliest remembered node with an equal key: (nodes before it, the node, nodes after it) *)
Fixpoint split_twin (el : node -> bool) (n : node) (pre : list node) : option (list node * node * list node) :=
  match pre with
  | [] => None
  | a :: t => if el a && key_eqb a n then Some ([], a, t)
              else match split_twin el n t with Some (p, a', m) => Some (a :: p, a', m) | None => None end
  end.

(* first node that has an earlier twin: (nodes before the twin, the twin, nodes between, the node, nodes after it) *)
Fixpoint find_dup (el : node -> bool) (pre : list node) (ns : list node) : option (list node * node * list node * node * list node) :=
  match ns with
  | [] => None
  | n :: t =>
    if el n then
      match split_twin el n pre with
      | Some (p, a, mid) => Some (p, a, mid, n, t)
      | None => find_dup el (pre ++ [n])%list t
      end
    else find_dup el (pre ++ [n])%list t
  end.

(* the Identity nodes the pass inserts (for graph outputs) sit before the node being visited: the walk never sees them, they
   are neither merged nor remembered.  `skip` = their outputs *)
Definition eligible_skip (skip : list vname) (n : node) : bool := eligible n && negb (existsb (fun o => mem o skip) (n_outs n)).

(* ---- redirecting uses / renaming values *)
Fixpoint ren (r : list (vname * vname)) (x : vname) : vname :=
  match r with [] => x | (a, b) :: t => if String.eqb x a then b else ren t x end.

(* uses only, at every depth (node inputs and nested graph outputs) *)
Fixpoint use_node (rho : vname -> vname) (n : node) : node :=
  let 'Node d o ins outs a subs := n in
  Node d o (map (option_map rho) ins) outs a
       ((fix go (l : list (string * graph)) : list (string * graph) :=
           match l with [] => [] | (k, g) :: t => (k, use_graph rho g) :: go t end) subs)
with use_graph (rho : vname -> vname) (g : graph) : graph :=
  let 'Graph ins inits nodes outs := g in
  Graph ins inits
        ((fix go (l : list node) : list node := match l with [] => [] | n :: t => use_node rho n :: go t end) nodes)
        (map rho outs).
(* direct inputs only *)
Definition use_top (rho : vname -> vname) (n : node) : node :=
  let 'Node d o ins outs a subs := n in Node d o (map (option_map rho) ins) outs a subs.
(* definitions and uses, at every depth *)
Fixpoint rename_node (rho : vname -> vname) (n : node) : node :=
  let 'Node d o ins outs a subs := n in
  Node d o (map (option_map rho) ins) (map rho outs) a
       ((fix go (l : list (string * graph)) : list (string * graph) :=
           match l with [] => [] | (k, g) :: t => (k, rename_graph rho g) :: go t end) subs)
with rename_graph (rho : vname -> vname) (g : graph) : graph :=
  let 'Graph ins inits nodes outs := g in
  Graph (map rho ins) (map rho inits)
        ((fix go (l : list node) : list node := match l with [] => [] | n :: t => rename_node rho n :: go t end) nodes)
        (map rho outs).

Definition nested_free (ys : list vname) (ns : list node) : bool :=
  forallb (fun n => negb (existsb (fun y => mem y (reads_subs (n_subs n))) ys)) ns.

(* one merge.  pairs = (removed output, earlier output) *)
Definition merge (gi go : list vname) (pre : list node) (a b : node) (suf : list node) : list node :=
  let pairs := combine (n_outs b) (n_outs a) in
  let out_pairs := filter (fun p => mem (fst p) go) pairs in
  let ident_pairs := filter (fun p => mem (snd p) go || mem (snd p) gi) out_pairs in
  let rename_pairs := filter (fun p => negb (mem (snd p) go || mem (snd p) gi)) out_pairs in
  let redirect := filter (fun p => negb (mem (fst p) (map fst rename_pairs))) pairs in
  let idents := map (fun p => Node "" "Identity" [Some (snd p)] [fst p] [] []) ident_pairs in
  let suf' := if nested_free (map fst redirect) suf then map (use_top (ren redirect)) suf
              else map (use_node (ren redirect)) suf in
  let back := map (fun p => (snd p, fst p)) rename_pairs in
  match rename_pairs with
  | [] => (pre ++ idents ++ suf')%list
  | _ => map (rename_node (ren back)) (pre ++ idents ++ suf')%list
  end.

Definition inserted_identities (gi go : list vname) (a b : node) : list vname :=
  map fst (filter (fun p => mem (fst p) go && (mem (snd p) go || mem (snd p) gi)) (combine (n_outs b) (n_outs a))).

Definition cse_step (skip : list vname) (g : graph) : option (graph * list vname) :=
  let 'Graph gi ii ns go := g in
  match find_dup (eligible_skip skip) [] ns with
  | Some (p, a, mid, b, suf) => Some (Graph gi ii (merge gi go (p ++ a :: mid)%list a b suf) go, (inserted_identities gi go a b ++ skip)%list)
  | None => None
  end.

Fixpoint cse_iter (fuel : nat) (skip : list vname) (g : graph) : graph :=
  match fuel with
  | O => g
  | S f => match cse_step skip g with Some (g', skip') => cse_iter f skip' g' | None => g end
  end.
Definition cse (g : graph) : graph := cse_iter (List.length (g_nodes g)) [] g.

(* ---- the part of the pass covered by the soundness theorem: every merge satisfies `merge_guard` *)
Definition disjointb (a b : list vname) : bool := forallb (fun x => negb (mem x b)) a.
Definition attrs_list_eqb (a b : list (string * attrv)) : bool :=
  list_eqb (fun x y => String.eqb (fst x) (fst y) && attr_eqb (snd x) (snd y)) a b.

Definition merge_guard (go : list vname) (a : node) (mid : list node) (b : node) (suf : list node) : bool :=
  let ya := n_outs a in let yb := n_outs b in
  String.eqb (n_dom a) (n_dom b) && String.eqb (n_op a) (n_op b) &&
  list_eqb oname_eqb (n_ins a) (n_ins b) && attrs_list_eqb (n_attrs a) (n_attrs b) &&
  match n_subs a, n_subs b with [], [] => true | _, _ => false end &&
  negb (String.eqb (n_dom a) "" && (String.eqb (n_op a) "If" || String.eqb (n_op a) "Loop")) &&
  Nat.eqb (List.length ya) (List.length yb) && nodupb ya && nodupb yb &&
  disjointb ya (present (n_ins a)) && disjointb yb ya &&
  disjointb (flat_map n_outs mid) (present (n_ins a) ++ ya)%list &&
  disjointb yb go &&
  forallb (fun n => disjointb (n_outs n) (ya ++ yb)%list && disjointb yb (names_subs (n_subs n))) suf.

Definition cse_step_checked (g : graph) : option (option graph) :=     (* None: nothing to merge; Some None: outside the theorem *)
  let 'Graph gi ii ns go := g in
  match find_dup eligible [] ns with
  | Some (p, a, mid, b, suf) =>
    if merge_guard go a mid b suf
    then Some (Some (Graph gi ii ((p ++ a :: mid) ++ map (use_top (ren (combine (n_outs b) (n_outs a)))) suf)%list go))
    else Some None
  | None => None
  end.

Fixpoint cse_iter_checked (fuel : nat) (g : graph) : option graph :=
  match fuel with
  | O => Some g
  | S f => match cse_step_checked g with
           | None => Some g
           | Some None => None
           | Some (Some g') => cse_iter_checked f g'
           end
  end.
Definition cse_checked (g : graph) : option graph := cse_iter_checked (List.length (g_nodes g)) g.
