(* C19: the scalar signature the fusion models are written over, and vector helpers.
   Everything is parameterised by a record of operations [fops F]; the field laws are NOT assumed here
   (model files contain no proofs).  Proof files open a Section with the hypothesis [is_field o]
   (Coq's [field_theory] record) -- a Section hypothesis, never an axiom.  No real numbers are involved:
   the theorems hold in every field, in particular in Qc (used for the non-vacuity examples). *)
From Coq Require Import List Field_theory.
Import ListNotations.

Record fops (F : Type) := mk_fops {
  f0 : F; f1 : F;
  fadd : F -> F -> F; fmul : F -> F -> F; fsub : F -> F -> F; fopp : F -> F;
  fdiv : F -> F -> F; finv : F -> F }.
Arguments f0 {F}. Arguments f1 {F}. Arguments fadd {F}. Arguments fmul {F}. Arguments fsub {F}.
Arguments fopp {F}. Arguments fdiv {F}. Arguments finv {F}.

Definition is_field {F} (o : fops F) : Prop :=
  field_theory (f0 o) (f1 o) (fadd o) (fmul o) (fsub o) (fopp o) (fdiv o) (finv o) (@eq F).

Section Vec.
  Variable F : Type.
  Variable o : fops F.

  (* n as a field element: 1 + 1 + ... (ReduceMean divides by the element count) *)
  Fixpoint of_nat (n : nat) : F := match n with O => f0 o | S k => fadd o (f1 o) (of_nat k) end.

  (* x ^ n by repeated multiplication: the meaning of ONNX Pow with a constant natural exponent *)
  Fixpoint pow (x : F) (n : nat) : F := match n with O => f1 o | S k => fmul o x (pow x k) end.

  Fixpoint vsum (v : list F) : F := match v with [] => f0 o | x :: t => fadd o x (vsum t) end.

  (* ReduceMean over the (last) axis represented by the list *)
  Definition mean (v : list F) : F := fdiv o (vsum v) (of_nat (length v)).

  (* ONNX Reciprocal *)
  Definition recip (x : F) : F := fdiv o (f1 o) x.

  (* element-wise binary op on equal-length operands (shorter operand truncates: the theorems that use it
     hold for every pair of lengths, so no length hypothesis is needed) *)
  Fixpoint map2 (f : F -> F -> F) (a b : list F) : list F :=
    match a, b with x :: a', y :: b' => f x y :: map2 f a' b' | _, _ => [] end.

  Definition vadd := map2 (fadd o).
  Definition vmul := map2 (fmul o).
  (* binary op with a scalar (a keepdims=1 reduction result or a 0-d constant) broadcast on the right *)
  Definition smap (f : F -> F -> F) (a : list F) (s : F) : list F := map (fun x => f x s) a.
End Vec.

Arguments of_nat {F}. Arguments pow {F}. Arguments vsum {F}. Arguments mean {F}. Arguments recip {F}.
Arguments map2 {F}. Arguments vadd {F}. Arguments vmul {F}. Arguments smap {F}.
