(* C07 model: the function extracted by an as_function rule WITH COPIED CONSTANTS
   (onnxscript/rewriter/_rewrite_rule.py::_copy_for_function).  A matched node may read a value that is not a call input
   but has a const_value (an initializer, or the output of a Constant node outside the match): copy_value then creates a
   Constant node inside the function holding that tensor, and the copies of the matched nodes read its output instead.
   So: formals = the call node's inputs (= the pattern inputs, in order), body = one Constant node per copied value
   (in the order they are met) followed by the matched nodes in graph order with those inputs redirected
   (State.fn_body), outputs = the pattern outputs; opset imports = the parent's entries for the domains of the WHOLE
   body (fix 8f809b5: the default domain of the Constant nodes included), the parent being the function being rewritten
   or else the model graph (fix 480b533: also for a match inside an If/Loop body).  No proofs in this file. *)
From Coq Require Import List String ZArith Bool Arith.
Require Import OV.Graph.Syntax OV.Graph.Sem OV.Graph.Names.
Require Import OV.Rewrite.Apply OV.Rewrite.FnCall OV.Rewrite.State.
Import ListNotations.
Local Open Scope string_scope.
Local Open Scope list_scope.

(* const_node / const_nodes / extract_const_okb live in Rewrite/State.v (fn_okb evaluates them on every traced extraction) *)

(* the opset imports of the extracted function: the parent's entries for the domains used by the body *)
Definition fn_imports (parent : list (string * Z)) (body : list node) : list (string * Z) :=
  filter (fun e => mem (fst e) (map n_dom body)) parent.
