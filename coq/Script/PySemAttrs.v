(* The plain-Python reading of Script/PySem.v extended to functions with ATTRIBUTE PARAMETERS (stage S4 of C01).

   A call supplies, besides the tensors, the effective value of every attribute parameter (`avals`: name -> Python
   value; Python applies the declared defaults itself).  The reading:
     * an attribute parameter used as a value is "promoted to a tensor": the tensor the node
       Constant(value_float | value_int = <the attribute>) denotes (followed by Cast(to=BOOL) for a bool), a polymorphic
       constant exactly like a literal: next to a tensor operand it is CastLike'd to that operand (PS l c);
     * an attribute parameter forwarded as a keyword argument (`op.LeakyRelu(x, alpha=alpha)`, `helper(x, k=k)`) is a
       reference attribute of that node (Translate.kw_attr: ARef);
     * reference attributes are resolved by the kernel semantics: `sem_res avals sem` replaces every `ARef a` by the value
       bound to a before the kernel sees the attribute list -- the meaning ONNX gives to ref_attr_name inside a function body.
   The theorems are stated for a kernel that resolves references this way (hypothesis `sem dom op (map (resolve1 avals) attrs)
   = sem dom op attrs`, which `sem_res avals sem0` satisfies for every sem0: PySemAttrsProofs / EagerProofs).
   With no attribute parameters this is Script/PySem.eval_script (eval_script_attrs_nil).  No proofs in this file. *)
From Coq Require Import List String ZArith Bool.
Require Import OV.Graph.Syntax OV.Graph.Sem OV.Script.Syntax OV.Script.Sets OV.Gen.ScriptTables OV.Script.Translate OV.Script.PySem
               OV.Script.Eager.
Import ListNotations.
Local Open Scope string_scope.

Definition resolve1 (avals : list (string * lit)) (kv : string * attrv) : string * attrv :=
  match snd kv with
  | ARef x => match lookup_assoc x avals with
              | Some l => (fst kv, lit_kwattr l)
              | None => kv
              end
  | _ => kv
  end.

Definition sem_res {V : Type} (avals : list (string * lit))
           (sem : string -> string -> list (string * attrv) -> list (option V) -> option (list V))
  : string -> string -> list (string * attrv) -> list (option V) -> option (list V) :=
  fun dom op attrs args => sem dom op (map (resolve1 avals) attrs) args.

Definition kind_ok (k : akind) (l : lit) : bool :=
  match k, l with
  | AKFloat, LFloat _ => true
  | AKInt, LInt _ => true
  | AKBool, LBool _ => true
  | _, _ => false
  end.

Section PySemAttrs.
  Variable V : Type.
  Variable sem : string -> string -> list (string * attrv) -> list (option V) -> option (list V).
  Variable truth : V -> option bool.
  Variable trip : V -> option nat.
  Variable of_nat : nat -> V.
  Variable while_limit : nat.
  Variable globals : list (string * lit).

  (* Converter._to_onnx_var on an attribute parameter: Constant(value_<kind> = ref a) [+ Cast(to=BOOL)] *)
  Definition attr_tensor (a : string) (k : akind) : option V :=
    match sem "" "Constant" [(akind_attr k, ARef a)] [] with
    | Some [c] =>
      match k with
      | AKBool => match sem "" "Cast" [("to", AInt 9)] [Some c] with Some [cb] => Some cb | _ => None end
      | _ => Some c
      end
    | _ => None
    end.

  Fixpoint bind_attrs (aps : list (string * akind * bool)) (avals : list (string * lit)) (env : penv V) : option (penv V) :=
    match aps with
    | [] => Some env
    | (a, k, _) :: t =>
      match lookup_assoc a avals, attr_tensor a k with
      | Some l, Some c => if kind_ok k l then bind_attrs t avals ((a, PS V l c) :: env) else None
      | _, _ => None
      end
    end.

  Definition eval_script_attrs (fuel : nat) (f : func) (xs : list V) (avals : list (string * lit)) : option (list V) :=
    match pbind V (f_tparams f) xs [] with
    | Some env0 =>
      match bind_attrs (f_aparams f) avals env0 with
      | Some env1 =>
        match exec_block V sem truth trip of_nat while_limit globals fuel (f_body f) env1 with
        | Some (OReturn _ vs) => Some vs
        | _ => None
        end
      | None => None
      end
    | None => None
    end.
End PySemAttrs.
