(* The stage lists read from the current source (Gen/C19Pipeline.v) have the shape the composition argument needs
   (Fusion/Pipeline.v: pipeline_ok), hence the composition theorem applies to optimize_for_ort AS IT IS NOW. *)
From Coq Require Import List String Bool.
Require Import OV.Fusion.Pipeline OV.Fusion.PipelineProofs OV.Gen.C19Pipeline.
Import ListNotations.
Local Open Scope string_scope.

Theorem source_pipeline_shape_ok : pipeline_ok src_pre_optimize src_fuse_xformers src_optimize_for_ort src_ort_rules = true.
Proof. vm_compute. reflexivity. Qed.

Theorem source_pipeline_sound : forall (M D : Type) (sem : M -> D) (interp : stage -> M -> M),
  (forall s, mem (s_name s) known_names = true -> forall m, sem (interp s m) = sem m) ->
  forall m, sem (run M interp (whole_pipeline src_pre_optimize src_fuse_xformers src_optimize_for_ort) m) = sem m.
Proof. intros. eapply pipeline_sound_of_shape; eauto. exact source_pipeline_shape_ok. Qed.
(* the flattened source pipeline, by name (what the harness executes stage by stage) *)
Definition source_stage_names : list string := map s_name (whole_pipeline src_pre_optimize src_fuse_xformers src_optimize_for_ort).
