"""C17 -- generated opset classes mirror the ONNX operator schemas exactly (DESIGN.md section 5, C17).

Tie = translator + correspondence:
  * regenerate(): Python-ast extraction (fail-closed, generated modules not imported) of every generated
    class / method and of every onnx.defs schema -> coq/Gen/OpsetMethods.v, coq/Gen/OpsetSchemas.v.  The
    finite theorem `registry_ok gen_schemas gen_classes = true` (Registry/OpsetGen.v) is re-proved by
    vm_compute against what the sources say now; Props/C17.v lifts it through the general theorems.
  * run(): (1) proofs; (2) if the finite statement no longer holds, Coq itself lists the failing
    (class, operator, what) and each is confirmed on the real, imported code (inspect.signature, a recorded
    call, real execution when the operator is in the execution table); (3) the same property evaluated
    directly on the real objects for every (class, operator); (4) correspondence of the three models:
    get_schema (all (domain, name, N)), Opset.__getitem__/__contains__/__getattr__ vs the static class,
    call_method vs recorded real calls of every generated method; (5) real execution: eager call with the
    defaults left out vs a hand-built bare node (ORT and onnx.reference).
"""
from __future__ import annotations

import re

import numpy as np

from harness import c17_emit as E
from harness import c17_extract as X
from harness import common
from harness.common import cbool, clist, copt

PROPERTY = "C17"
LEVEL = "proof"

REQS = ["OV.Registry.OpsetMethod", "OV.Registry.OpsetEmit", "OV.Registry.OpsetChain", "OV.Gen.OpsetMethods", "OV.Gen.OpsetSchemas"]
_STATE = {}


# ----------------------------------------------------------------------------- translator

def regenerate(ctx):
    classes, exposed, errors = X.extract_classes(common.REPO)
    recs = X.schema_records()
    opnames = {r["name"] for r in recs}
    # fail-closed: a class-level assignment that rebinds an operator name would shadow a method
    import ast
    import os
    for c in classes:
        tree = ast.parse(open(os.path.join(common.REPO, c["file"]), encoding="utf-8").read())
        for st in ast.walk(tree):
            if isinstance(st, (ast.Assign, ast.AnnAssign)):
                tg = st.targets if isinstance(st, ast.Assign) else [st.target]
                for t in tg:
                    if isinstance(t, ast.Name) and t.id in opnames and st.col_offset <= 4:
                        errors.append((c["file"], st.lineno, f"class/module-level assignment to operator name {t.id}"))
    for f, line, why in errors:
        ctx.tie_broken("translator", f"{f}:{line}", why)
    exempt = E.exempt_ops(classes, recs)
    _STATE.update(classes=classes, exposed=exposed, recs=recs, errors=errors, exempt=exempt)
    from harness import c17_opgen
    ctx.gen("OpsetMethods", E.classes_file(classes, exempt, c17_opgen.excluded_keys()))
    ctx.gen("OpsetSchemas", E.schemas_file(recs))


# ----------------------------------------------------------------------------- helpers

_STR = re.compile(r'"((?:[^"]|"")*)"')


def parse_str_list(v):
    return [m.replace('""', '"') for m in _STR.findall(v)]


def cargs(pos, kw):
    p = clist(pos, lambda x: copt(x, E.cz))
    k = clist(sorted(kw.items()), lambda kv: f"({E.cs(kv[0])}, {E.cdflt(X.enc_default(kv[1]))})")
    return f"(mkArgs {p} {k})"


def cnode(r):
    if r is None:
        return "None"
    name, dom, since, args, kwargs, _opname = r
    # anything that is not one of our integer stand-ins (e.g. a tuple when *args was forwarded unstarred) -> -1
    p = clist(args, lambda x: copt(x if x is None or type(x) is int else -1, E.cz))
    k = clist(sorted(kwargs.items()), lambda kv: f"({E.cs(kv[0])}, {E.cdflt(X.enc_default(kv[1]))})")
    return f"(Some (mkN {E.cs(name)} {E.cs(dom)} {E.cz(since)} {p} {k}))"


def shard(xs, n):
    return [xs[i:i + n] for i in range(0, len(xs), n)]


def safe_eval(ctx, body, name):
    """ctx.coq_eval, surviving a concurrent clean-up of /tmp by another builder (scratch dir re-created)."""
    import os
    for attempt in range(3):
        os.makedirs(ctx.cases_dir, exist_ok=True)
        try:
            return ctx.coq_eval(REQS, body, name=name)
        except FileNotFoundError:
            if attempt == 2:
                raise
    raise AssertionError


def eval_disagreeing(ctx, stream, defs, pred, cases, per=700):
    """cases: list of Coq terms; -> indices the model disagrees on (None if evaluation itself failed)."""
    if not cases:
        return []
    bodies = []
    for sh in shard(cases, per):
        bodies.append(f"{defs}\nDefinition cases := {clist(sh)}.\nEval vm_compute in (disagreeing ({pred}) 0 cases).")
    # (ctx.coq_eval_shards mangles its scratch path; same thing through ctx.coq_eval with unique file names)
    from concurrent.futures import ThreadPoolExecutor
    tag = re.sub(r"\W", "_", stream)
    with ThreadPoolExecutor(max_workers=8) as ex:
        res = list(ex.map(lambda kb: safe_eval(ctx, kb[1], f"{tag}_s{kb[0]}"), enumerate(bodies)))
    bad = []
    for k, (ok, vals, raw) in enumerate(res):
        if not ok or len(vals) != 1:
            ctx.tie_broken("correspondence", f"{stream}:model-evaluation", raw[-1200:])
            return None
        bad += [k * per + i for i in common.parse_nat_list(vals[0])]
    return bad


def domain_label(d):
    return d if d else "ai.onnx"


# ----------------------------------------------------------------------------- (2) failures of the finite statement

def coq_failures(ctx):
    body = (
        'Definition show3 (x : string * string * list string) : string := '
        '(fst (fst x) ++ "|" ++ snd (fst x) ++ "|" ++ String.concat "," (snd x))%string.\n'
        'Definition show2 (x : string * string * Z * Z) : string := (fst (fst (fst x)) ++ "|" ++ snd (fst (fst x)))%string.\n'
        "Definition dep := deprecated_inherited OpsetSchemas.schemas OpsetMethods.classes.\n"
        "Definition exm := exempt_in OpsetMethods.exempt_ops.\n"
        "Eval vm_compute in (map show3 (registry_failures exm OpsetSchemas.schemas OpsetMethods.classes)).\n"
        "Eval vm_compute in (map show2 dep).\n"
        "Eval vm_compute in (List.concat (map (fun x => [snd (fst x); snd x]) dep)).\n"
        'Eval vm_compute in (map (fun x => (fst x ++ "|" ++ String.concat "," (snd x))%string) '
        "(emitted_diff exm OpsetSchemas.schemas OpsetMethods.classes)).\n"
        "Eval vm_compute in (map s_name (filter (fun s => negb (schema_wfb s)) OpsetSchemas.schemas)).\n"
        "Definition emc := emit_classes exm OpsetMethods.excluded_opsets OpsetSchemas.schemas.\n"
        "Eval vm_compute in (classes_diff OpsetMethods.classes emc).\n"
        'Eval vm_compute in ((if reg_wfb exm OpsetMethods.excluded_opsets OpsetSchemas.schemas then [] else ["reg_wfb"]) ++ '
        '(if classes_eqb OpsetMethods.classes emc then [] else ["classes_eqb"]))%list.'
    )
    ok, vals, raw = safe_eval(ctx, body, "failures")
    if not ok or len(vals) != 7:
        ctx.tie_broken("translator", "Gen/OpsetMethods.v", "model does not evaluate on the regenerated data: " + raw[-1500:])
        return None, None, None
    fails = [tuple(s.split("|")) for s in parse_str_list(vals[0])]
    fails = [(c, op, [w for w in what.split(",") if w]) for c, op, what in fails]
    names = [tuple(s.split("|")) for s in parse_str_list(vals[1])]
    nums = common.parse_nat_list(vals[2])
    dep = [(c, op, nums[2 * i], nums[2 * i + 1]) for i, (c, op) in enumerate(names)]
    _STATE["emitted_diff"] = [tuple(x.split("|")) for x in parse_str_list(vals[3])]
    _STATE["not_wf"] = parse_str_list(vals[4])
    _STATE["classes_diff"] = parse_str_list(vals[5]) + parse_str_list(vals[6])
    return fails, dep, not fails


# ----------------------------------------------------------------------------- (5) real execution

def exec_pair(ctx, R, opset, name, s, stats, replay_only=False):
    """Eager call with defaults left out vs bare node, same backend on both sides.  -> list of diffs."""
    from onnxscript._internal import evaluator
    plan = R.EXEC_TABLE[(opset.domain, name)](int(s.since_version))
    if plan is None:
        stats["skipped"] += 1
        return []
    inputs, attrs = plan
    diffs = []
    ran = 0
    for be, ev in (("ort", evaluator.ort_evaluator), ("ref", evaluator.OnnxReferenceRuntimeEvaluator())):
        old = evaluator.default()
        evaluator.set_default(ev)
        try:
            try:
                got = R.run_eager(opset, name, inputs, attrs)
            except Exception as e:  # backend cannot run this operator/version at all
                stats[f"{be}-eager-unavailable"] += 1
                err_e = e
                got = None
        finally:
            evaluator.set_default(old)
        try:
            n_out = len(got) if got is not None else 1
            want = R.run_bare(name, opset.domain, opset.version, inputs, attrs, n_out, be)
        except Exception:
            want = None
        if got is None and want is None:
            continue
        if got is None or want is None:
            if got is None and want is not None:
                # bare node runs but the eager call does not: the call is not the bare node
                diffs.append((be, "eager call failed where the bare node runs: " + repr(err_e)[:300], None, [w.tolist() for w in want]))
            else:
                stats[f"{be}-bare-unavailable"] += 1
            continue
        ran += 1
        stats[f"{be}-ran"] += 1
        if not R.same(got, want, exact=(be == "ort")):
            if be == "ort" and R.same(got, want, exact=False, rtol=1e-6, atol=1e-7):
                stats["ort-roundoff-only"] += 1      # two sessions with different optimisation levels; not a default
                continue
            diffs.append((be, "outputs differ", [g.tolist() if g is not None else None for g in got], [w.tolist() for w in want]))
    if ran == 0:
        stats["no-backend"] += 1
    return diffs


def attr_sensitivity(ctx, R, opset, name, s, stats):
    """Non-vacuity of the execution oracle: does leaving a default out matter?  Pass each defaulted
    numeric attribute explicitly (a) with the schema default -> same result, (b) perturbed -> count changes."""
    from onnx.helper import get_attribute_value
    plan = R.EXEC_TABLE[(opset.domain, name)](int(s.since_version))
    if plan is None:
        return
    inputs, attrs = plan
    try:
        base = R.run_eager(opset, name, inputs, attrs)
    except Exception:
        return
    for a in sorted(s.attributes.values(), key=lambda a: a.name):
        if not a.default_value.name or a.name in attrs:
            continue
        d = get_attribute_value(a.default_value)
        if isinstance(d, bytes):
            d = d.decode()
        try:
            same_ = R.same(base, R.run_eager(opset, name, inputs, dict(attrs, **{a.name: d})), exact=True)
        except Exception:
            continue
        stats["explicit-default-runs"] += 1
        if not same_:
            ctx.violation(f"C17:{type(opset).__name__}.{name}:explicit-default-differs:{a.name}",
                          f"{type(opset).__name__}.{name}: passing {a.name}={d!r} (the schema default) explicitly changes the result",
                          {"class": type(opset).__name__, "op": name, "attr": a.name, "default": repr(d)})
        if isinstance(d, (int, float)) and not isinstance(d, bool):
            alt = (0 if d else 1) if isinstance(d, int) else d * 2.0 + 0.5
            try:
                other = R.run_eager(opset, name, inputs, dict(attrs, **{a.name: alt}))
            except Exception:
                continue
            stats["perturbed-runs"] += 1
            if not R.same(base, other, exact=True):
                stats["perturbed-changes-result"] += 1


# ----------------------------------------------------------------------------- run

def run(ctx):
    import collections
    import inspect

    import onnx.defs

    from harness import c17_real as R

    ctx.assume("onnx.defs (the installed onnx package) is the definition of 'the schema ONNX defines'; Gen/OpsetSchemas.v is "
               "extracted from it on every run and the resolve model is compared with onnx.defs.get_schema on every (domain, name, N)")
    exempt = set(_STATE["exempt"])
    if exempt:
        ctx.assume("nothing is required of (OpsetN, op) where onnx.defs resolves a deprecated schema AND the class of the "
                   "deprecation version defines no method of its own (regenerated list Gen/OpsetMethods.exempt_ops: "
                   + ", ".join(f"{domain_label(d)}:{n}" for d, n in sorted(exempt)) + "); the inherited methods that exist "
                   "anyway are reported as findings with their own keys; a deprecated operator with a generated method of "
                   "its own is checked like any other")
    ctx.assume("keyword-only parameters and keyword arguments are compared as sets (the translator sorts them by name): their order "
               "has no meaning in Python; inputs are compared in order")
    ctx.assume("float defaults are compared after rounding to float32 (ONNX FLOAT attributes are 32 bit), by repr")
    ctx.assume("passing an input by keyword (legal for non-variadic inputs) is not modelled; tensor / attribute *values* are opaque "
               "(no type checking of arguments is modelled)")
    ctx.assume("the evaluator turns (schema, inputs, non-None keyword arguments) into one node under opset_import "
               "(schema.domain, schema.since_version): read from evaluator._prepare_model_and_inputs_for_eager, exercised by the "
               "real-execution stage")
    ctx.trust("Python ast extraction of onnx_opset/_impl/*.py (harness/c17_extract.py, fail-closed on any statement outside the "
              "generator's template), cross-checked against inspect.signature and recorded calls of the imported classes on every run")

    import time
    marks = [("start", time.time())]

    def mark(name):
        marks.append((name, time.time()))

    classes, recs = _STATE["classes"], _STATE["recs"]
    ctx.check_props()
    mark("proofs")
    if ctx.tier == "thorough":
        ctx.coqchk(["Props.C17"])

    opsets, _oo = R.load_opsets()
    by_cls = {c["cls"]: c for c in classes}
    names_by_dom = collections.defaultdict(set)
    for r in recs:
        names_by_dom[r["domain"]].add(r["name"])

    def live_schema(dom, name, N):
        try:
            s = onnx.defs.get_schema(name, N, dom)
        except Exception:
            return None
        return s

    # ---- exported instances vs extracted classes
    exp_ok = True
    for inst_name, cls_name, _mod, keys in _STATE["exposed"]:
        c = by_cls.get(cls_name)
        real = opsets.get(cls_name)
        if c is None or real is None or (real.domain, real.version) != (c["domain"], c["version"]) or keys != [(c["domain"], c["version"])]:
            exp_ok = False
            ctx.violation(f"C17:{cls_name}:exported-under-wrong-key",
                          f"onnx_opset.{inst_name} / all_opsets does not map ({c and c['domain']!r}, {c and c['version']}) to {cls_name}",
                          {"instance": inst_name, "class": cls_name, "all_opsets_keys": keys,
                           "real": None if real is None else [real.domain, real.version]})
    if set(opsets) != set(by_cls):
        ctx.tie_broken("translator", "onnx_opset/__init__.py", f"imported classes {sorted(set(opsets) ^ set(by_cls))} differ from extracted ones")
    ctx.obligation("every exported opsetN instance is of the class whose (domain, version) is its all_opsets key", exp_ok)

    # ---- Opset._prepare_inputs itself: real function vs specification vs the Coq `strip`
    import itertools
    lists = [list(t) for n in range(0, 5) for t in itertools.product([None, 1, 2], repeat=n)]
    for _ in range(150 if ctx.tier == "quick" else 1500):
        lists.append([ctx.rng.choice([None, None, 3, 4, 5]) for _ in range(ctx.rng.randrange(5, 12))])
    any_opset = opsets["Opset13"] if "Opset13" in opsets else opsets[sorted(opsets)[0]]
    strip_cases, prep_bad = [], None
    for l in lists:
        got = list(any_opset._prepare_inputs(None, *l))
        if got != R.strip_none(l) and (prep_bad is None or len(l) < len(prep_bad[0])):
            prep_bad = (l, got)
        strip_cases.append(f"({clist(l, lambda x: copt(x, E.cz))}, {clist(got, lambda x: copt(x, E.cz))})")
        ctx.case(("strip", len(l), sum(x is None for x in l), bool(l) and l[-1] is None))
    _STATE["prepare_broken"] = prep_bad is not None
    if prep_bad is not None:
        ctx.violation("C17:Opset._prepare_inputs:trims-more-than-trailing-none",
                      f"Opset._prepare_inputs{tuple(prep_bad[0])} returned {prep_bad[1]}, expected {R.strip_none(prep_bad[0])}",
                      {"inputs": prep_bad[0], "returned": prep_bad[1], "expected": R.strip_none(prep_bad[0])})
    bad = eval_disagreeing(ctx, "strip", "", "fun c : list (option Z) * list (option Z) => list_eqb oz_eqb (strip (fst c)) (snd c)", strip_cases, per=2000)
    if bad is not None:
        if bad and prep_bad is None:
            ctx.tie_broken("correspondence", "strip", f"strip model differs from Opset._prepare_inputs on {lists[bad[0]]}")
        ctx.obligation(f"correspondence: strip = Opset._prepare_inputs on {len(lists)} lists (all lists over {{None,1,2}} up to length 4 + random)", not bad)

    # ---- (2) what the finite statement says, and failures replayed on the real code
    fails, dep, reg_ok = coq_failures(ctx)
    stats = collections.Counter()
    if fails is not None:
        ctx.obligation("registry_failures Gen.schemas Gen.classes = [] (no failing (class, operator) in the regenerated data)", reg_ok and not fails,
                       "; ".join(f"{c}.{op}:{'+'.join(w)}" for c, op, w in fails[:8]))
        for cn, op, what in fails:
            report_failure(ctx, R, opsets, by_cls, cn, op, what, stats, source="model")
        ctx.cover(model_failing_pairs=len(fails))

    mark("model-failures")
    # ---- (2b) the generator: real opgen against the installed onnx.defs vs the checked-in classes vs the Gallina model
    opgen_stage(ctx, R, opsets, by_cls, stats)
    mark("opgen")
    # ---- (3) the property directly on the real objects, every (class, operator)
    sig_cache, n_pairs, n_live, n_dep_real, n_dep_checked = {}, 0, 0, [], 0
    oracle_bad = 0
    for cn in sorted(opsets, key=lambda k: (opsets[k].domain, opsets[k].version)):
        o = opsets[cn]
        cls = type(o)
        c = by_cls.get(cn)
        static_names = set()
        for k in cls.__mro__:
            static_names |= {n for n, v in vars(k).items() if inspect.isfunction(v) and not n.startswith("_") and k.__module__.startswith("onnxscript.onnx_opset._impl")}
        for name in sorted(names_by_dom[o.domain] | static_names):
            n_pairs += 1
            s = live_schema(o.domain, name, o.version)
            dc = R.defining_class(cls, name) if name in static_names else None
            if s is None:
                if dc is not None:
                    oracle_bad += 1
                    ctx.violation(f"C17:{dc.__name__}.{name}:no-such-operator", f"{cn} has a method {name} but onnx.defs has no {name} at ({o.domain!r}, {o.version})",
                                  {"class": cn, "op": name})
                continue
            if s.deprecated and (o.domain, name) in exempt:
                if dc is not None and dc().version != int(s.since_version):
                    n_dep_real.append((cn, name))
                continue
            if s.deprecated:
                n_dep_checked += 1
            n_live += 1
            ctx.case(("pair", o.domain, name, int(s.since_version), dc is not None and dc is not cls))
            if dc is None:
                covered = o.domain != "" or o.version <= 23
                if covered:
                    oracle_bad += 1
                    ctx.violation(f"C17:{domain_label(o.domain)}:{name}-{s.since_version}:missing-method", f"{cn} has no generated method for {name} (schema since {s.since_version})",
                                  {"class": cn, "op": name, "domain": o.domain, "version": o.version, "schema_since": int(s.since_version)})
                continue
            func = vars(dc)[name]
            key = (dc.__name__, name)
            if key not in sig_cache:
                own_s = live_schema(o.domain, name, dc().version)
                sig_cache[key] = R.signature_diffs(func, own_s) if own_s is not None else ["schema-version"]
            what = list(sig_cache[key])
            what += [w for w in R.call_diffs(o, name, s) if w not in what]
            if what:
                oracle_bad += 1
                report_failure(ctx, R, opsets, by_cls, cn, name, what, stats, source="oracle")
    if n_live < 3000:
        ctx.tie_broken("harness", "oracle-degenerate", f"only {n_live} live (class, operator) pairs")
    ctx.cover(class_operator_pairs=n_pairs, live_pairs=n_live, deprecated_pairs_checked_like_live=n_dep_checked,
              exempt_operators=sorted(f"{domain_label(d)}:{n}" for d, n in exempt), generated_methods=sum(len(c["methods"]) for c in classes),
              classes=len(classes), schemas=len(recs))
    ctx.obligation("direct oracle: inspect.signature and two recorded calls of the real method agree with onnx.defs for every live (class, operator)",
                   oracle_bad == 0, f"{oracle_bad} pairs differ")

    # ---- deprecated operators still reachable through an inherited method (finding, not part of the theorem)
    if dep is not None:
        seen = set()
        for cn, op, k_m, k_s in dep:
            o = opsets[cn]
            key = f"C17:deprecated-op-inherited:{domain_label(o.domain)}:{op}"
            if key in seen:
                continue
            seen.add(key)
            # confirm on the real code: the generated method hands the evaluator the old schema, opset[name] the deprecated one
            s = live_schema(o.domain, op, o.version)
            (mp, mk), _ = R.sentinel_call_plan(onnx.defs.get_schema(op, k_m, o.domain))
            r = R.recorded_call(o, op, mp, mk)
            item = o[op]
            confirmed = (r is not None and s is not None and s.deprecated and r[2] != int(s.since_version)
                         and item is not None and int(item.op_schema.since_version) == int(s.since_version))
            if confirmed:
                ctx.violation(key, f"{cn}.{op}: ONNX deprecates {op} at version {k_s}; the inherited method still evaluates {op}-{r[2]} "
                              f"while {cn}[{op!r}] (used by the translator) denotes the deprecated {op}-{k_s}",
                              {"class": cn, "op": op, "eager_schema_since": r[2], "dynamic_schema_since": int(s.since_version),
                               "deprecated": True, "classes_affected": sorted(c2 for c2, o2, _, _ in dep if o2 == op)})
            else:
                ctx.tie_broken("correspondence", "deprecated-inherited", f"model lists {cn}.{op} ({k_m} vs {k_s}) but the real code does not show it")
        real_set, model_set = set(n_dep_real), {(c_, o_) for c_, o_, _, _ in dep}
        if real_set != model_set:
            ctx.tie_broken("correspondence", "deprecated-inherited",
                           f"deprecated operators with a static method: model {sorted(model_set - real_set)[:4]} vs real {sorted(real_set - model_set)[:4]}")
        ctx.cover(deprecated_inherited_pairs=len(dep), deprecated_inherited_ops=sorted({op for _, op, _, _ in dep}))

    mark("direct-oracle")
    # ---- (4a) get_schema model vs onnx.defs.get_schema on every (domain, name, N)
    maxv = collections.defaultdict(int)
    for r in recs:
        maxv[r["domain"]] = max(maxv[r["domain"]], r["since"])
    res_cases, res_meta = [], []
    for dom in sorted(names_by_dom):
        for name in sorted(names_by_dom[dom]) + ["NoSuchOp"]:
            for N in range(0, maxv[dom] + 3):
                s = live_schema(dom, name, N)
                since = None if s is None else int(s.since_version)
                res_cases.append(f"({E.cs(dom)}, {E.cs(name)}, {E.cz(N)}, {copt(since, E.cz)}, {cbool(bool(s is not None and s.deprecated))})")
                res_meta.append((dom, name, N, since))
                ctx.case(("get_schema", since is None, bool(s is not None and s.deprecated)))
    bad = eval_disagreeing(ctx, "get_schema", "", "res_agrees OpsetSchemas.schemas", res_cases, per=1500)
    if bad is not None:
        for i in bad[:5]:
            ctx.tie_broken("correspondence", "get_schema", f"resolve model differs from onnx.defs.get_schema on {res_meta[i]}")
        ctx.obligation(f"correspondence: resolve = onnx.defs.get_schema on all {len(res_cases)} (domain, name, N)", not bad)
    ctx.cover(get_schema_cases=len(res_cases))

    mark("get_schema")
    # ---- (4b) dynamic lookup vs static class, real code vs model
    from onnxscript import values as osvalues
    dyn_cases, dyn_meta = [], []
    dyn_bad_direct = 0
    cls_order = sorted(opsets, key=lambda k: (opsets[k].domain, opsets[k].version))
    if ctx.tier == "quick":
        pick = set(ctx.rng.sample(cls_order, 10)) | {"Opset1", "Opset10", "Opset13", "Opset18", "Opset23", "Opset_ai_onnx_ml5", "Opset_ai_onnx_preview1"}
        cls_order = [c for c in cls_order if c in pick]
    other = {"": "TreeEnsemble", "ai.onnx.ml": "Softmax", "ai.onnx.preview": "Abs"}
    for cn in cls_order:
        o = opsets[cn]
        for name in sorted(names_by_dom[o.domain]) + ["NoSuchOp", other.get(o.domain, "Abs")]:
            item = o[name]
            item_since = None if item is None else int(item.op_schema.since_version)
            cont = name in o
            try:
                g = getattr(o, name)
            except AttributeError:
                g = None
            is_static = g is not None and not isinstance(g, osvalues.Op)
            if g is None:
                ga = None
            elif is_static:
                own = R.defining_class(type(o), name)
                sch_for_plan = live_schema(o.domain, name, own().version)
                (mp, mk), _ = R.sentinel_call_plan(sch_for_plan)
                r = R.recorded_call(o, name, mp, mk)
                ga = None if r is None else r[2]
            else:
                ga = int(g.op_schema.since_version)
            # translation path: values.Op(opset, name) resolves through opset[name]
            tr = osvalues.Op(o, name).op_schema
            tr_since = None if tr is None else int(tr.since_version)
            s = live_schema(o.domain, name, o.version)
            want = None if s is None else int(s.since_version)
            if item_since != want or cont != (s is not None) or tr_since != want:
                dyn_bad_direct += 1
                which = "getitem" if item_since != want else ("contains" if cont != (s is not None) else "values.Op")
                ctx.violation(f"C17:Opset-dynamic-lookup:{which}-disagrees-with-onnx.defs", f"{cn}[{name!r}] / in / Op() give since={item_since}/{cont}/{tr_since}, onnx.defs says {want}",
                              {"class": cn, "op": name, "getitem_since": item_since, "contains": cont, "op_since": tr_since, "onnx_defs_since": want})
            if s is not None and not (s.deprecated and (o.domain, name) in exempt) and ga != want:
                dyn_bad_direct += 1
                ctx.violation(f"C17:{R.defining_class(type(o), name).__name__ if is_static else cn}.{name}:eager-vs-translation", f"{cn}.{name} evaluates schema since={ga} eagerly but {cn}[{name!r}] (translation) is since={want}",
                              {"class": cn, "op": name, "eager_since": ga, "translation_since": want})
            dyn_cases.append(f"({E.cs(cn)}, {E.cs(name)}, {copt(item_since, E.cz)}, {cbool(cont)}, {copt(ga, E.cz)}, {cbool(is_static)})")
            dyn_meta.append((cn, name, item_since, cont, ga, is_static))
            ctx.case(("dyn", item_since is None, is_static, ga == item_since))
    bad = eval_disagreeing(ctx, "dynamic-lookup", "", "dyn_agrees OpsetSchemas.schemas OpsetMethods.classes", dyn_cases, per=600)
    if bad is not None:
        for i in bad[:5]:
            ctx.tie_broken("correspondence", "dynamic-lookup", f"model differs from the real Opset lookup on {dyn_meta[i]}")
        ctx.obligation(f"correspondence: Opset.__getitem__/__contains__/__getattr__ and static lookup = model on {len(dyn_cases)} (class, name)", not bad and not dyn_bad_direct)
    ctx.cover(dynamic_lookup_cases=len(dyn_cases), dynamic_lookup_classes=len(cls_order))

    mark("dynamic-lookup")
    # ---- (4d) session 6: class chain / inheritance test, lookup histories in both orders, the translation family
    from harness import c17_translate as TR
    ctx.assume("translation: a node carries no version; its schema is onnx.defs.get_schema(op_type, v, domain) with v the version the "
               "enclosing FunctionProto / ModelProto (or model-local function) imports for the node's domain; the scripts of the "
               "translation family are straight-line calls of generated methods on tensor parameters (no literals, no control flow)")
    TR.chain_stage(ctx, R, opsets, classes, recs, live_schema)
    mark("class-chain")
    _late, _pairs = TR.history_stage(ctx, recs, live_schema)
    mark("lookup-histories")
    if _pairs is not None:
        TR.translation_stage(ctx, R, opsets, classes, recs, live_schema, _pairs)
    mark("translation")
    # ---- (4b') the opsets the property names: every onnx.defs domain is either inside the registry theorem (a generated class per
    #      version) or excluded by the generator's documented exclusion and then reachable through a plain values.Opset only
    from harness import c17_opgen as G_
    excluded = set(G_.excluded_keys())
    dom_versions = collections.defaultdict(set)
    for r in recs:
        dom_versions[r["domain"]].add(r["since"])
    have = {(c["domain"], c["version"]) for c in classes}
    plain_ok, plain_n = True, 0
    import onnxscript.onnx_opset as oo_
    for dom in sorted(dom_versions):
        for v in sorted(dom_versions[dom]):
            if (dom, v) in have:
                if oo_.all_opsets.get((dom, v)) is not opsets[[c["cls"] for c in classes if (c["domain"], c["version"]) == (dom, v)][0]]:
                    plain_ok = False
                    ctx.violation(f"C17:{domain_label(dom)}/{v}:generated-class-not-exposed", f"the generated class of ({dom!r}, {v}) is not what onnx_opset.all_opsets exposes",
                                  {"domain": dom, "version": v})
                continue
            if (dom, v) not in excluded:
                plain_ok = False
                ctx.violation(f"C17:{domain_label(dom)}/{v}:opset-without-generated-class",
                              f"onnx.defs has operators of ({dom!r}, {v}) but there is neither a generated class nor a documented exclusion",
                              {"domain": dom, "version": v, "operators": sorted(r["name"] for r in recs if r["domain"] == dom and r["since"] == v)[:10]})
                continue
            # excluded: not exposed by onnxscript (no class, not in all_opsets); a plain Opset resolves dynamically -- same lookup as the model
            if (dom, v) in oo_.all_opsets:
                ctx.tie_broken("harness", "excluded-opset", f"({dom!r}, {v}) is excluded from generation but exposed in all_opsets")
            po = osvalues.Opset(dom, v)
            for name in sorted(names_by_dom[dom]) + ["NoSuchOp"]:
                s = live_schema(dom, name, v)
                want = None if s is None else int(s.since_version)
                item = po[name]
                try:
                    ga = int(getattr(po, name).op_schema.since_version)
                except AttributeError:
                    ga = None
                plain_n += 1
                ctx.case(("plain-opset", dom, name, want is None))
                if (None if item is None else int(item.op_schema.since_version)) != want or (name in po) != (s is not None) or ga != want:
                    plain_ok = False
                    ctx.violation("C17:Opset-dynamic-lookup:plain-opset-disagrees-with-onnx.defs",
                                  f"values.Opset({dom!r}, {v})[{name!r}] / in / getattr disagree with onnx.defs (since {want})",
                                  {"domain": dom, "version": v, "op": name, "onnx_defs_since": want})
    ctx.obligation(f"every (domain, version) of onnx.defs has its generated class exposed in onnx_opset.all_opsets ({len(have)} classes: "
                   f"ai.onnx 1..{max(dom_versions[''])}, ai.onnx.ml, ai.onnx.preview) or is the generator's documented exclusion "
                   f"({sorted(excluded)}: no class, not exposed; plain values.Opset lookup = onnx.defs on {plain_n} names)", plain_ok)
    ctx.cover(domains={domain_label(d): sorted(vs) for d, vs in dom_versions.items()}, excluded_opsets=sorted(map(list, excluded)))
    # ---- (4c) call_method vs recorded real calls of every generated method
    call_cases, call_meta = [], []
    kinds = collections.Counter()
    rng = ctx.rng
    for c in classes:
        o = opsets[c["cls"]]
        users = [k for k in opsets if isinstance(opsets[k], type(o))]
        for m in c["methods"]:
            ins = [p for p in m["params"] if p[1] in ("req", "opt", "var")]
            kws = [p for p in m["params"] if p[1] in ("kw", "kwreq")]
            plans = []
            # minimal, full, explicit None everywhere, random mix, and calls Python must reject
            def pos_of(mode):
                pos, v = [], 100
                for n, k, _ in ins:
                    v += 1
                    if k == "req":
                        pos.append(None if mode == "nones" and rng.random() < 0.3 else v)
                    elif k == "opt":
                        if mode == "min":
                            break
                        pos.append(v if mode == "full" or (mode == "mix" and rng.random() < 0.5) else None)
                    else:
                        pos += {"min": [], "full": [v, v + 50, None], "nones": [None, None], "mix": [v] * rng.randrange(0, 3)}[mode]
                return pos
            def kw_of(mode):
                kw = {}
                for j, (n, k, d) in enumerate(kws):
                    if k == "kwreq":
                        kw[n] = 7000 + j
                    elif mode == "full":
                        kw[n] = rng.choice([8000 + j, "s%d" % j, (1, 2, j), 0.5 + j, (1.5, 2.5), ("a", "b")])
                    elif mode == "nones":
                        kw[n] = None
                    elif mode == "mix" and rng.random() < 0.5:
                        kw[n] = rng.choice([8000 + j, None, "t"])
                return kw
            for mode in ("min", "full", "nones", "mix"):
                plans.append((mode, pos_of(mode), kw_of(mode)))
            if not any(k == "var" for _, k, _ in ins):
                plans.append(("too-many", pos_of("full") + [999], kw_of("min")))
            if any(k == "req" for _, k, _ in ins):
                plans.append(("too-few", [], kw_of("min")))
            plans.append(("unknown-kw", pos_of("full"), dict(kw_of("min"), zz_not_an_attribute=1)))
            if any(k == "kwreq" for _, k, _ in kws):
                plans.append(("missing-required-attr", pos_of("full"), {}))
            if ctx.tier == "quick":
                plans = plans[:2] + rng.sample(plans[2:], min(2, len(plans) - 2))
            target = rng.choice(users) if rng.random() < 0.3 else c["cls"]
            if R.defining_class(type(opsets[target]), m["name"]).__name__ != c["cls"]:
                target = c["cls"]     # overridden further down the chain
            for mode, pos, kw in plans:
                r = R.recorded_call(opsets[target], m["name"], pos, kw)
                call_cases.append(f"({E.cs(target)}, {E.cs(m['name'])}, {cargs(pos, kw)}, {cnode(r)})")
                call_meta.append((target, m["name"], mode, pos, {k: repr(v) for k, v in kw.items()}, None if r is None else list(r[:3]) + [r[3], {k: repr(v) for k, v in r[4].items()}]))
                kinds[(mode, r is None)] += 1
                ctx.case(("call", mode, r is None, len(ins), len(kws), any(k == "var" for _, k, _ in ins)))
    bad = eval_disagreeing(ctx, "call", "", "call_agrees OpsetSchemas.schemas OpsetMethods.classes", call_cases, per=500)
    if bad is not None:
        for i in bad[:5]:
            ctx.tie_broken("correspondence", "call", f"call_method model differs from the recorded real call: {call_meta[i]}")
        ctx.obligation(f"correspondence: call_method = what the real generated method hands the evaluator on {len(call_cases)} calls "
                       f"of all {sum(len(c['methods']) for c in classes)} methods", not bad)
    ctx.sample({"recorded_call": call_meta[len(call_meta) // 3]})
    ctx.sample({"recorded_call": next(m_ for m_ in call_meta if m_[1] == "Clip" and m_[0] >= "Opset11")})
    if len(call_cases) < 2000:
        ctx.tie_broken("harness", "call-generator-degenerate", f"only {len(call_cases)} recorded calls")
    ctx.cover(recorded_calls=len(call_cases), rejected_by_python=sum(v for (m_, none), v in kinds.items() if none),
              call_modes={f"{m_}:{'TypeError' if none else 'ok'}": v for (m_, none), v in sorted(kinds.items())})

    mark("recorded-calls")
    # ---- (5) real execution
    import onnxruntime as ort
    ort.set_default_logger_severity(4)
    exec_pairs = []
    for (dom, name) in sorted(R.EXEC_TABLE):
        seen = {}
        for cn in sorted(opsets, key=lambda k: (opsets[k].domain, opsets[k].version)):
            o = opsets[cn]
            if o.domain != dom:
                continue
            s = live_schema(dom, name, o.version)
            if s is None or s.deprecated:
                continue
            seen.setdefault(int(s.since_version), []).append(cn)
        for since, cns in sorted(seen.items()):
            exec_pairs.append((dom, name, since, cns[0], True))             # the defining class
            if len(cns) > 1:
                exec_pairs.append((dom, name, since, rng.choice(cns[1:]), False))   # an inheriting class
    if ctx.tier == "quick":
        core = {"Softmax", "Gemm", "Clip", "LeakyRelu", "Concat", "ArgMax", "Flatten", "Pad", "RNN", "MeanVarianceNormalization", "Binarizer"}
        rest = [p for p in exec_pairs if p[1] not in core]
        exec_pairs = [p for p in exec_pairs if p[1] in core and (p[4] or rng.random() < 0.4)] + rng.sample(rest, min(60, len(rest)))
    exec_bad = 0
    for dom, name, since, cn, own in exec_pairs:
        o = opsets[cn]
        s = live_schema(dom, name, o.version)
        diffs = exec_pair(ctx, R, o, name, s, stats)
        ctx.case(("exec", name, since, own))
        if name in ("Gemm", "Clip") and own:
            ctx.sample({"executed": {"class": cn, "op": name, "schema_since": since, "eager_defaults_omitted_equals_bare_node": not diffs}})
        for be, why, got, want in diffs:
            if be != "ort":
                # onnx.reference applies its own, version-independent attribute defaults for old operator versions
                # (e.g. Softmax-1/11 axis): a reference-only difference is recorded, onnxruntime is the judge
                stats["ref-only-difference"] += 1
                continue
            exec_bad += 1
            ctx.violation(f"C17:{R.defining_class(type(o), name).__name__}.{name}:eager-differs-from-bare-node",
                          f"{cn}.{name} called with defaults left out differs from the bare {name} node at opset {o.version} ({be}): {why}",
                          {"class": cn, "op": name, "backend": be, "why": why, "eager": got, "bare": want})
        if own and (ctx.tier == "thorough" or rng.random() < 0.35):
            attr_sensitivity(ctx, R, o, name, s, stats)
    ctx.obligation(f"real execution: eager call with defaults omitted = bare node on {len(exec_pairs)} (operator, version, class) samples", exec_bad == 0)
    ctx.cover(executed_pairs=len(exec_pairs), executed_ops=len({p[1] for p in exec_pairs}), exec_stats=dict(sorted(stats.items())))
    mark("execution")
    # ---- (5b) every generated method: inputs synthesised from the schema, eager (defaults left out) vs bare node on onnxruntime
    generic_sweep(ctx, R, opsets)
    mark("execution-all-methods")
    ctx.cover(stage_seconds={b[0]: round(b[1] - a[1], 1) for a, b in zip(marks, marks[1:])})
    if stats["ort-ran"] < max(10, len(exec_pairs) // 3):
        ctx.tie_broken("harness", "execution-oracle-degenerate", f"only {stats['ort-ran']} of {len(exec_pairs)} pairs ran on onnxruntime")
    ctx.cover(rule="exhaustive over the regenerated data: every generated method x every class that sees it x every onnx.defs schema "
                   "(proof by evaluation + direct oracle on the imported classes); recorded calls: 4-8 argument shapes per method incl. "
                   "calls Python rejects; execution: table of ~75 operators, every since_version, defining + one inheriting class")


def generic_sweep(ctx, R, opsets):
    """The sentence "calling an operator eagerly with defaults left out computes what a node without those attributes
    computes", for every generated method for which an input can be synthesised from the schema (harness/c17_generic.py,
    run in a worker process: some made-up inputs crash onnxruntime)."""
    import collections

    from harness import c17_generic as G
    todo = G.method_list(opsets)
    res = G.sweep(common.REPO, todo, ctx.cases_dir)
    if len(res) != len(todo):
        ctx.tie_broken("harness", "execution-all-methods", f"the worker returned {len(res)} results for {len(todo)} methods")
    by = collections.Counter((r["source"] or "-", r["status"]) for r in res)
    reasons = collections.defaultdict(list)
    n_bad = 0
    for r in res:
        ran = r["status"] in ("equal", "roundoff", "diff")
        if ran:
            ctx.case(("exec-method", r["op"], r.get("since"), r["source"], bool(r["defaults"])))
        if r["status"] == "diff":
            n_bad += 1
            ctx.violation(f"C17:{r['cls']}.{r['op']}:eager-differs-from-bare-node",
                          f"{r['cls']}.{r['op']} called with the defaults left out differs from the bare {r['op']} node at opset "
                          f"{r.get('since')} on onnxruntime (inputs synthesised from the schema: {r['source']})",
                          {"class": r["cls"], "op": r["op"], "inputs": r.get("inputs"), "attrs": r.get("attrs"),
                           "eager": r.get("eager"), "bare": r.get("bare")})
        elif r["status"] == "eager-failed":
            d = r.get("detail") or ""
            reasons["eager evaluation needs the number of outputs from the calling context (Split)" if "number of expected outputs" in d
                    else "the eager evaluator could not run the call although the bare node runs: " + d[:120]].append(f"{r['cls']}.{r['op']}")
        elif not ran:
            reasons[r["reason"] or "?"].append(f"{r['cls']}.{r['op']}")
    withd = [r for r in res if r["defaults"]]
    ran_all = [r for r in res if r["status"] in ("equal", "roundoff", "diff")]
    ran_d = [r for r in ran_all if r["defaults"]]
    ctx.obligation(f"real execution, all methods: eager call with defaults left out = bare node on onnxruntime for {len(ran_all)} of "
                   f"{len(todo)} generated methods ({len(ran_d)} of the {len(withd)} methods that have an attribute default)", n_bad == 0)
    ctx.cover(execution_all_methods=dict(
        methods=len(todo), exercised=len(ran_all), exercised_by_hand_table=sum(1 for r in ran_all if r["source"] == "table"),
        exercised_by_synthesised_input=sum(1 for r in ran_all if r["source"] == "generic"),
        methods_with_attribute_defaults=len(withd), exercised_with_attribute_defaults=len(ran_d),
        roundoff_only=by.get(("table", "roundoff"), 0) + by.get(("generic", "roundoff"), 0),
        not_exercised={k: {"count": len(v), "operators": sorted({x.split(".", 1)[1] for x in v})[:40]} for k, v in sorted(reasons.items())}))
    print(f"C17-execution: {len(ran_all)}/{len(todo)} generated methods exercised eagerly vs bare node on onnxruntime "
          f"({len(ran_d)}/{len(withd)} of those with attribute defaults); not exercised: "
          + "; ".join(f"{len(v)} {k}" for k, v in sorted(reasons.items(), key=lambda kv: -len(kv[1]))))
    if len(ran_all) < 300:
        ctx.tie_broken("harness", "execution-all-methods-degenerate", f"only {len(ran_all)} methods exercised")


def opgen_stage(ctx, R, opsets, by_cls, stats):
    import os

    from harness import c17_opgen as G
    ctx.assume("opgen is driven as opgen/__main__.py drives it (module base name and minimum opset version read from that file, "
               "the documented exclusion ai.onnx.preview.training/1), writing into a scratch directory; black / isort are "
               "formatting only and are not run (asts are compared)")
    classes, recs, exempt = _STATE["classes"], _STATE["recs"], _STATE["exempt"]
    # the Gallina generator against the checked-in classes (also a compiled lemma: OpsetGen.gen_classes_emitted)
    ed, nwf = _STATE.get("emitted_diff"), _STATE.get("not_wf")
    out = os.path.join(ctx.cases_dir, "opgen_out")
    info, err = G.run_generator(common.REPO, out)
    if info is None:
        ctx.tie_broken("translator", "opgen", err)
        return
    diffs, st, gen_classes = G.compare(common.REPO, out)
    gen_exempt = E.exempt_ops(gen_classes, recs)
    dep_ops = sorted({(r["domain"], r["name"]) for r in recs if r["deprecated"]})
    variant = "skips-deprecated" if gen_exempt == dep_ops else ("emits-deprecated" if not gen_exempt else "mixed")
    ctx.cover(opgen=dict(st, generated_files=info["files"], generated_ops=info["ops"], unsupported=info["unsupported"],
                         excluded=info["excluded"], variant=variant, differences=len(diffs)))
    for c in gen_classes:
        for m in c["methods"]:
            ctx.case(("opgen-method", c["domain"], m["name"], m["triple"][1]))
    # does what the generator writes NOW satisfy the schemas?  Same Coq test, on the generator's own output.
    gen_fails = {}
    if diffs:
        body = (E.classes_defs(gen_classes, gen_exempt, prefix="g_") +
                '\nDefinition show3 (x : string * string * list string) : string := '
                '(fst (fst x) ++ "|" ++ snd (fst x) ++ "|" ++ String.concat "," (snd x))%string.\n'
                "Eval vm_compute in (map show3 (registry_failures (exempt_in g_exempt_ops) OpsetSchemas.schemas g_classes)).\n"
                'Eval vm_compute in (map (fun x => (fst x ++ "|" ++ String.concat "," (snd x))%string) '
                "(emitted_diff (exempt_in g_exempt_ops) OpsetSchemas.schemas g_classes)).")
        body = "Local Open Scope string_scope.\nLocal Open Scope Z_scope.\n" + body
        ok, vals, raw = safe_eval(ctx, body, "opgen_out")
        if ok and len(vals) == 2:
            for x in parse_str_list(vals[0]):
                c_, op_, what_ = x.split("|")
                gen_fails[(c_, op_)] = what_
            _STATE["gen_emitted_diff"] = parse_str_list(vals[1])
        else:
            ctx.tie_broken("translator", "opgen-output", "model does not evaluate on the generator's output: " + raw[-1200:])
    seen = set()
    CAP = 12       # one shared cause usually touches hundreds of methods: the first few per field are enough to replay
    per_field = {}
    for d in diffs:
        key = f"C17:opgen-output-differs:{d['cls']}.{d['op']}:{d['field']}"
        if key in seen:
            continue
        per_field[d["field"]] = per_field.get(d["field"], 0) + 1
        if per_field[d["field"]] > 4 or len(seen) >= CAP:
            continue
        seen.add(key)
        gf = gen_fails.get((d["cls"], d["op"]))
        ctx.violation(key, f"opgen run on the installed onnx.defs does not reproduce the checked-in {d['cls']}.{d['op']} ({d['field']}): "
                      f"generator {d['generator']!r} vs checked-in {d['checked_in']!r}"
                      + (f"; the generator's method fails the schema test: {gf}" if gf else ""),
                      dict(d, generator_fails_schema_test=gf, how="python opgen --exclude ai.onnx.preview.training/1 into a scratch directory"))
    for (c_, op_), what_ in sorted(gen_fails.items())[:CAP]:
        if not any(d["cls"] == c_ and d["op"] == op_ for d in diffs):
            ctx.violation(f"C17:opgen-output:{c_}.{op_}:{what_.split(',')[0]}", f"what opgen generates for {c_}.{op_} does not mirror the schema: {what_}",
                          {"class": c_, "op": op_, "what": what_})
    ctx.obligation(f"translation validation: opgen on the installed onnx.defs reproduces the checked-in classes "
                   f"({st['methods_compared']} methods, {st['classes_generated']} classes: records equal; "
                   f"{st['method_defs_ast_equal']} whole defs ast-equal)", not diffs, "; ".join(f"{d['cls']}.{d['op']}:{d['field']}" for d in diffs[:8]))
    if st["methods_compared"] < 500:
        ctx.tie_broken("harness", "opgen-degenerate", f"only {st['methods_compared']} methods compared")
    # the Gallina model of the generator vs the real generator's output (= the checked-in classes when there is no difference)
    if ed is not None:
        cd = _STATE.get("classes_diff") or []
        ed = list(ed) + [("class-skeleton", ",".join(cd))] if cd else ed
        model_ok = not ed and not nwf
        if not diffs and not model_ok:
            ctx.tie_broken("correspondence", "generator-model",
                           f"Registry/OpsetEmit.emit_methods differs from what opgen generates: classes {ed[:6]}; schemas failing schema_wfb: {nwf[:6]}")
        ctx.obligation(f"correspondence: emit_classes (Gallina model of the generator: class names, base classes, (domain, version), "
                       f"method lists) = all {len(classes)} classes as opgen generates them; onnx.defs ({len(recs)} schemas) passes reg_wfb", model_ok,
                       f"{ed[:6]} {nwf[:6]}")
    ctx.sample({"opgen": {"variant": variant, "generated_ops": info["ops"], "unsupported": info["unsupported"],
                          "records_equal": not diffs, "defs_ast_equal": st["method_defs_ast_equal"]}})


def report_failure(ctx, R, opsets, by_cls, cn, op, what, stats, source):
    """A (class, operator) that does not mirror its schema: confirm on the real code, replay for real where possible."""
    import onnx.defs
    o = opsets.get(cn)
    if o is None:
        ctx.tie_broken("translator", cn, f"{source} reports {cn}.{op}: {what} but the class is not importable")
        return
    try:
        s = onnx.defs.get_schema(op, o.version, o.domain)
    except Exception:
        s = None
    dc = R.defining_class(type(o), op)
    owner = dc.__name__ if dc is not None else cn
    confirmed = []
    if s is None:
        if dc is not None and "no-such-operator" in what:
            confirmed = ["no-such-operator"]
    elif dc is None:
        if "missing-method" in what:
            confirmed = ["missing-method"]
    else:
        real = set(R.signature_diffs(vars(dc)[op], onnx.defs.get_schema(op, dc().version, o.domain)
                                     if _has(op, dc().version, o.domain) else s)) | set(R.call_diffs(o, op, s))
        # names used by the model (default:<a>, inputs, attributes, prepare-inputs, forwarding, schema-version, name, parameter-order)
        for w in what:
            base = w.split(":")[0]
            if w in real or any(r.split(":")[0] == base for r in real) or (base in ("attributes", "forwarding", "default") and
                                                                            any(r.split(":")[0] in ("attributes", "forwarding", "default") for r in real)):
                confirmed.append(w)
        if source == "oracle":
            confirmed = list(what)
    if not confirmed:
        ctx.tie_broken("translator" if source == "model" else "harness", f"{cn}.{op}",
                       f"{source} reports {what} but the imported class does not show it")
        return
    for w in confirmed:
        if w == "prepare-inputs" and _STATE.get("prepare_broken"):
            continue      # one shared cause, already reported with its own key
        replay = {"class": cn, "defined_in": owner, "op": op, "what": w, "domain": o.domain, "version": o.version, "found_by": source}
        text = f"{owner}.{op} (seen on {cn}) does not mirror {op}-{s.since_version if s is not None else '?'}: {w}"
        if w.startswith("default:") and s is not None and dc is not None:
            import inspect
            a = w.split(":", 1)[1]
            p = inspect.signature(vars(dc)[op]).parameters.get(a)
            from onnx.helper import get_attribute_value
            sd = s.attributes[a].default_value if a in s.attributes else None
            replay["method_default"] = None if p is None else repr(p.default)
            replay["schema_default"] = None if sd is None or not sd.name else repr(get_attribute_value(sd))
            text += f" (method default {replay['method_default']}, schema default {replay['schema_default']})"
        if s is not None and dc is not None and (o.domain, op) in R.EXEC_TABLE:
            try:
                diffs = exec_pair(ctx, R, o, op, s, stats)
            except Exception as e:  # pragma: no cover
                diffs = []
                replay["execution_error"] = repr(e)[:300]
            if diffs:
                be, why, got, want = diffs[0]
                replay.update(executed=True, backend=be, eager=got, bare=want)
                text += f"; executed for real: eager call with defaults omitted differs from the bare node ({be})"
            else:
                replay["executed"] = "no difference on the sample input"
        if w == "missing-method":
            key = f"C17:{domain_label(o.domain)}:{op}-{s.since_version}:missing-method"
        else:
            key = f"C17:{owner}.{op}:{w}"
        ctx.violation(key, text, replay)


def _has(op, N, dom):
    import onnx.defs
    try:
        onnx.defs.get_schema(op, N, dom)
        return True
    except Exception:
        return False


def replay(doc):
    """./check C17 --replay <file>: re-evaluate the recorded (class, operator) on the real code."""
    import json

    import onnx.defs

    from harness import c17_real as R
    rp = doc.get("replay", {})
    print(json.dumps(doc, indent=1, default=str)[:3000])
    cn, op = rp.get("class"), rp.get("op")
    if not cn or not op:
        return 0
    opsets, _ = R.load_opsets()
    o = opsets.get(cn)
    if o is None:
        print("class not importable:", cn)
        return 1
    try:
        s = onnx.defs.get_schema(op, o.version, o.domain)
    except Exception:
        s = None
    dc = R.defining_class(type(o), op)
    print(f"{cn}.{op}: defined in {dc.__name__ if dc else None}; onnx.defs schema since "
          f"{None if s is None else s.since_version}{' (deprecated)' if s is not None and s.deprecated else ''}")
    if s is None or dc is None:
        return 1 if (s is None) != (dc is None) else 0
    what = R.signature_diffs(vars(dc)[op], onnx.defs.get_schema(op, dc().version, o.domain)) + R.call_diffs(o, op, s)
    print("differences now:", sorted(set(what)) or "none")
    return 1 if what else 0
