(* C03 / C04: proofs about coq/Opt/MoveInits.v (the renaming of moved branch initializers). *)
From Coq Require Import List String Bool Arith Lia.
Require Import OV.Graph.Syntax OV.Rewrite.State OV.Rewrite.StateProofs OV.Gen.MoveInits OV.Opt.MoveInits.
Import ListNotations.
Local Open Scope string_scope.

Lemma bumped_inj : forall name a b, bumped name a = bumped name b -> a = b.
Proof. unfold bumped. intros name a b H. apply append_inj_l in H. apply append_inj_l in H. apply nat_to_string_inj. exact H. Qed.

Lemma NoDup_snoc_s : forall (l : list string) x, NoDup l -> ~ In x l -> NoDup (l ++ [x])%list.
Proof.
  induction l as [|a l IH]; intros x ND NI; cbn.
  - constructor; [intros []|constructor].
  - inversion ND; subst. constructor.
    + intro I. apply in_app_or in I. destruct I as [I|[I|[]]]; [contradiction|]. subst. apply NI. left. reflexivity.
    + apply IH; auto. intro I. apply NI. right. exact I.
Qed.

Lemma NoDup_app_inv_s : forall (l l' : list string), NoDup (l ++ l')%list -> NoDup l' /\ forall y, In y l' -> ~ In y l.
Proof.
  induction l as [|a l IH]; intros l' ND; cbn in *.
  - split; [exact ND|intros y _ []].
  - inversion ND; subst. destruct (IH _ H2) as [A B]. split; [exact A|].
    intros y I [->|J]; [apply H1; apply in_or_app; right; exact I|exact (B y I J)].
Qed.

(* the source has the `while` form *)
Lemma source_search_loops : fresh_name_search_loops = true.
Proof. reflexivity. Qed.

(* ---- one name *)
Lemma fresh_init_name_total : forall name dst, exists y, fresh_init_name name dst = Some y.
Proof.
  intros name dst. unfold fresh_init_name. destruct (mem name dst); [|eauto].
  destruct (first_free_total (bumped name) dst 1 (bumped_inj name)) as [j Hj]. rewrite Hj. cbn. eauto.
Qed.

Lemma fresh_init_name_fresh : forall name dst y, fresh_init_name name dst = Some y -> ~ In y dst.
Proof.
  intros name dst y. unfold fresh_init_name. destruct (mem name dst) eqn:E.
  - destruct (first_free (bumped name) dst (S (List.length dst)) 1) as [j|] eqn:F; cbn; [|discriminate].
    intro H; inversion H; subst. apply first_free_sound in F. destruct F as [F _].
    intro I. apply mem_In in I. congruence.
  - intro H; inversion H; subst. intro I. apply mem_In in I. congruence.
Qed.

(* the chosen name is the name itself when free, else the FIRST unused name_<n>, n >= 1 *)
Lemma fresh_init_name_spec : forall name dst y, fresh_init_name name dst = Some y ->
  (~ In name dst /\ y = name) \/
  (In name dst /\ exists n, 1 <= n /\ y = bumped name n /\ ~ In y dst /\ forall m, 1 <= m < n -> In (bumped name m) dst).
Proof.
  intros name dst y. unfold fresh_init_name. destruct (mem name dst) eqn:E.
  - destruct (first_free (bumped name) dst (S (List.length dst)) 1) as [j|] eqn:F; cbn; [|discriminate].
    intro H; inversion H; subst. right. split; [apply mem_In; exact E|].
    apply first_free_sound in F. destruct F as [F1 [F2 F3]]. exists j. repeat split; auto.
    + intro I. apply mem_In in I. congruence.
    + intros m Hm. apply mem_In. apply F3. exact Hm.
  - intro H; inversion H; subst. left. split; [|reflexivity]. intro I. apply mem_In in I. congruence.
Qed.

(* the one-bump variant agrees with the loop whenever it does not raise, and raises exactly on a double clash *)
Lemma once_agrees_or_raises : forall name dst,
  (fresh_init_name_once name dst = None <-> (In name dst /\ In (bumped name 1) dst)) /\
  (forall y, fresh_init_name_once name dst = Some y -> fresh_init_name name dst = Some y).
Proof.
  intros name dst. unfold fresh_init_name_once, fresh_init_name. destruct (mem name dst) eqn:E.
  - destruct (mem (bumped name 1) dst) eqn:E1; split.
    + split; [intros _; split; apply mem_In; assumption|reflexivity].
    + intros y H; discriminate.
    + split; [discriminate|]. intros [_ I]. apply mem_In in I. congruence.
    + intros y H; inversion H; subst. cbn [first_free]. rewrite E1. reflexivity.
  - split.
    + split; [discriminate|]. intros [I _]. apply mem_In in I. congruence.
    + intros y H; exact H.
Qed.

(* ---- one call *)
Lemma move_inits_total : forall src dst, exists r, move_inits src dst = Some r.
Proof.
  unfold move_inits. induction src as [|x r IH]; intros dst; cbn; [eauto|].
  destruct (fresh_init_name_total x dst) as [y Hy]. rewrite Hy.
  destruct (IH (dst ++ [y])%list) as [[ren d] Hr]. rewrite Hr. eauto.
Qed.

Lemma move_with_shape : forall choose src dst ren d, move_with choose src dst = Some (ren, d) ->
  map fst ren = src /\ d = (dst ++ map snd ren)%list.
Proof.
  intros choose. induction src as [|x r IH]; intros dst ren d; cbn.
  - intro H; inversion H; subst. cbn. rewrite app_nil_r. auto.
  - destruct (choose x dst) as [y|]; [|discriminate].
    destruct (move_with choose r (dst ++ [y])%list) as [[ren' d']|] eqn:M; [|discriminate].
    intro H; inversion H; subst. destruct (IH _ _ _ M) as [A B]. cbn. rewrite A. split; [reflexivity|].
    rewrite B. rewrite <- app_assoc. reflexivity.
Qed.

(* moved initializers get pairwise distinct names that are not initializer names of dst; dst stays duplicate-free *)
Lemma move_inits_fresh : forall src dst ren d, move_inits src dst = Some (ren, d) -> NoDup dst ->
  NoDup d /\ NoDup (map snd ren) /\ (forall y, In y (map snd ren) -> ~ In y dst).
Proof.
  unfold move_inits. induction src as [|x r IH]; intros dst ren d; cbn.
  - intros H ND; inversion H; subst. cbn. repeat split; auto. constructor.
  - destruct (fresh_init_name x dst) as [y|] eqn:F; [|discriminate].
    destruct (move_with fresh_init_name r (dst ++ [y])%list) as [[ren' d']|] eqn:M; [|discriminate].
    intros H ND; inversion H; subst. pose proof (fresh_init_name_fresh _ _ _ F) as Fy.
    assert (ND' : NoDup (dst ++ [y])%list).
    { apply NoDup_snoc_s; assumption. }
    destruct (IH _ _ _ M ND') as [A [B C]]. split; [exact A|]. cbn. split.
    + constructor; [|exact B]. intro I. apply (C y I). apply in_or_app. right. left. reflexivity.
    + intros z [->|I]; [exact Fy|]. intro J. apply (C z I). apply in_or_app. left. exact J.
Qed.

(* no clash (the domain of Opt/Fold.v pe_if: names unique across graphs): nothing is renamed *)
Lemma move_inits_no_clash : forall src dst, NoDup src -> (forall x, In x src -> ~ In x dst) ->
  move_inits src dst = Some (map (fun x => (x, x)) src, (dst ++ src)%list).
Proof.
  unfold move_inits. induction src as [|x r IH]; intros dst ND DJ; cbn.
  - rewrite app_nil_r. reflexivity.
  - inversion ND; subst. unfold fresh_init_name at 1.
    destruct (mem x dst) eqn:E; [exfalso; apply (DJ x); [left; reflexivity|apply mem_In; exact E]|].
    rewrite IH; auto.
    + rewrite <- app_assoc. reflexivity.
    + intros z Iz J. apply in_app_or in J. destruct J as [J|[J|[]]]; [apply (DJ z); [right; exact Iz|exact J]|].
      subst. contradiction.
Qed.

(* ---- several calls in a row (sibling / nested constant-condition Ifs) *)
Lemma move_many_total : forall srcs dst, exists r, move_many srcs dst = Some r.
Proof.
  unfold move_many. induction srcs as [|s r IH]; intros dst; cbn; [eauto|].
  destruct (move_inits_total s dst) as [[ren d] H]. unfold move_inits in H. rewrite H.
  destruct (IH d) as [[rens d'] H']. rewrite H'. eauto.
Qed.

Lemma move_many_fresh : forall srcs dst rens d, move_many srcs dst = Some (rens, d) -> NoDup dst ->
  NoDup d /\ d = (dst ++ flat_map (map snd) rens)%list /\ map (map fst) rens = srcs.
Proof.
  unfold move_many. induction srcs as [|s r IH]; intros dst rens d; cbn.
  - intros H ND; inversion H; subst. cbn. rewrite app_nil_r. auto.
  - destruct (move_with fresh_init_name s dst) as [[ren d1]|] eqn:M; [|discriminate].
    destruct (move_many_with fresh_init_name r d1) as [[rens' d']|] eqn:MM; [|discriminate].
    intros H ND; inversion H; subst.
    destruct (move_inits_fresh _ _ _ _ M ND) as [A _]. destruct (move_with_shape _ _ _ _ _ M) as [S1 S2].
    destruct (IH _ _ _ MM A) as [B [C D]]. split; [exact B|]. cbn. split.
    + rewrite C, S2. rewrite <- app_assoc. reflexivity.
    + rewrite S1, D. reflexivity.
Qed.

(* all names given to moved initializers by k calls are pairwise distinct and none was an initializer name of dst *)
Lemma move_many_names_distinct : forall srcs dst rens d, move_many srcs dst = Some (rens, d) -> NoDup dst ->
  NoDup (flat_map (map snd) rens) /\ forall y, In y (flat_map (map snd) rens) -> ~ In y dst.
Proof.
  intros srcs dst rens d H ND. destruct (move_many_fresh _ _ _ _ H ND) as [A [B _]]. subst d.
  apply NoDup_app_inv_s. exact A.
Qed.

(* the single `if` instead of the `while`: the third sibling If with a same-named initializer raises (ValueError in
   Graph.register_initializer), and already the second one when the main graph has an initializer of that name - where the loop
   succeeds *)
Lemma move_many_once_refuted :
  move_many_once [["scale"]; ["scale"]; ["scale"]] [] = None /\
  move_many_once [["scale"]; ["scale"]] ["scale"] = None /\
  move_many [["scale"]; ["scale"]; ["scale"]] []
    = Some ([[("scale", "scale")]; [("scale", "scale_1")]; [("scale", "scale_2")]], ["scale"; "scale_1"; "scale_2"]) /\
  move_many [["scale"]; ["scale"]] ["scale"; "scale_1"]
    = Some ([[("scale", "scale_2")]; [("scale", "scale_3")]], ["scale"; "scale_1"; "scale_2"; "scale_3"]).
Proof. vm_compute. repeat split; reflexivity. Qed.

(* what the current source does is total and has the properties above *)
Lemma move_inits_src_is_loop : move_inits_src = move_inits /\ move_many_src = move_many.
Proof. unfold move_inits_src, move_many_src. rewrite source_search_loops. auto. Qed.

Lemma move_many_src_total : forall srcs dst, exists r, move_many_src srcs dst = Some r.
Proof. rewrite (proj2 move_inits_src_is_loop). exact move_many_total. Qed.

(* an observed call accepted by observed_ok is a call on which the real helper did what the model says *)
Lemma lists_eqb_eq : forall a b, lists_eqb a b = true -> a = b.
Proof.
  unfold lists_eqb. induction a as [|x a IH]; destruct b as [|y b]; cbn; intro H; try reflexivity; try discriminate.
  apply andb_true_iff in H. destruct H as [L H]. apply andb_true_iff in H. destruct H as [E H].
  apply String.eqb_eq in E. subst. f_equal. apply IH. rewrite L. exact H.
Qed.
Lemma observed_ok_sound : forall src dst raised news after, observed_ok src dst raised news after = true ->
  raised = false /\ move_inits src dst = Some (combine src news, after).
Proof.
  intros src dst raised news after. unfold observed_ok. rewrite (proj1 move_inits_src_is_loop).
  destruct (move_inits_total src dst) as [[ren d] H]. rewrite H. intro O.
  apply andb_true_iff in O. destruct O as [O O3]. apply andb_true_iff in O. destruct O as [O O2].
  apply andb_true_iff in O. destruct O as [O0 O1].
  apply lists_eqb_eq in O1, O2, O3. subst. split; [destruct raised; [discriminate|reflexivity]|].
  f_equal. f_equal. clear. induction ren as [|[a b] t IH]; cbn; [reflexivity|]. rewrite <- IH. reflexivity.
Qed.
