#!/bin/bash
# apply_ready.sh <prefix>   applies proposed_fixes/ready/<prefix>_*.diff in order to /repo, one fix: commit each; prints "<hash> <file>"
set -e
cd /repo
for f in /verif/proposed_fixes/ready/$1_*.diff; do
  subj=$(head -1 "$f" | sed 's/^[#* ]*//')
  case "$subj" in fix:*) ;; *) echo "NO SUBJECT in $f: $subj"; exit 1;; esac
  body=$(sed -n '2,12p' "$f" | grep -E '^#' | sed 's/^# \?//' || true)
  git apply "$f"
  git add -A
  git commit -q -m "$subj" -m "$body"
  echo "$(git log -1 --format=%h) $(basename $f)"
done
